"""Builds DESIGN.md section 10.6 (which checks catch which seeded changes) from seeded/*/meta.json and the result lines of the
seed runs (files given on the command line: lines '<seed id> exit=<rc> violations=<n>   obligation <name> :: <label> (...)').
Also records the outcome in each seed's meta.json (detected_by / run_against)."""
import glob
import json
import os
import re
import subprocess
import sys

ROOT = os.path.dirname(os.path.abspath(__file__))
EXTRA = {   # seeds whose own property's check does not report them, with the check that does and why
    "C11-m2": "reported by C12 (`C12/deliver[...]` :: pending: same responses in the same order): the change is in the executor's pending-response list, outside C11's quantifier (no interleavings)",
    "C11-r2m3": "reported by C12 (same change as C11-m2)",
    "C11-r3m3": "reported by C12 (same change as C11-m2)",
    "C13-r2m3": "also reported by C12 (pending-response list)",
    "C07-r4m1": "reported by C08 (program-level behaviour of the transpiled code, not a gate decomposition)",
    "C11-r4m3": "reported by C12 / C13 (executor's response matching and qubit bookkeeping, outside C11's quantifier)",
    "C07-r5m3": "reported by C08 (`C08/schema[qubit register written by load used by single-qubit gates around a carbon-carbon gate]`): same change as C08-r5m1, a scratch register clobbers a live loaded register; every isolated gate is still decomposed exactly",
    "C11-r5m1": "reported by C12 (`C12/deliver[...]` :: request queues: pairs left): the change is in the executor's handling of a deferred response",
    "C20-r5m2": "reported by C05 (`C05/flush[arrays allocated on both sides of a flush stay distinct]`): the change is in the SDK's memory manager; the toolbox circuit itself is unchanged",
    "C20-r5m3": "reported by C07 (`C07/decomp[cnot]`, electron-target placement): the change is in the NV transpiler; the toolbox circuit (vanilla) is unchanged",
    "C16-m2": "neutralised by the C16 repair 84f2381: the range checks added there reject what this change let through, so the property holds with it",
    "C16-m3": "neutralised by the C16 repair 84f2381 (as C16-m2)",
    "C05-r2m2": "reported by C03 (re-introduces the scratch-register defect of 52d6f3e)",
    "C07-r2m1": "reported by C08 (`C08/shapes[...]` :: classical-registers-named-by-the-source-are-equal): a classical Q register is clobbered, not a gate decomposition",
    "C07-r3m2": "reported by C08 (as C07-r2m1)",
    "C02-r2m1": "also reported by C01 (re-encode after update)",
    "C02-r2m3": "also reported by C01 (flavour table)",
    "C08-r2m3": "also reported by C07 (rotation obligations)",
}


def _summary(meta):
    summary = (meta.get("summary") or meta.get("description") or "").replace("|", "/").replace("\n", " ")
    if len(summary) > 230:
        summary = summary[:227] + "..."
    return summary


def main(files):
    res = {}
    for f in files:
        for line in open(f):
            m = re.match(r"(C\d\d-\w+) (?:try_patch: )?exit=(\d+) violations=(\d+)\s*(.*)", line.strip())
            if m:
                res[m.group(1)] = (int(m.group(2)), int(m.group(3)), m.group(4))
            elif "NOAPPLY" in line:
                res[line.split()[0]] = (None, 0, "patch does not apply to the current tree")
    head = subprocess.run(["git", "-C", "/repo", "rev-parse", "--short", "HEAD"], capture_output=True, text=True).stdout.strip()
    rows = []
    for d in sorted(glob.glob(os.path.join(ROOT, "seeded", "*"))):
        sid = os.path.basename(d)
        try:
            meta = json.load(open(os.path.join(d, "meta.json")))
        except Exception:
            meta = {}
        prop = sid.split("-")[0]
        if sid not in res and meta.get("detected_by"):   # no fresh result given: keep the outcome recorded by the earlier run
            ob = (meta.get("first_failed_obligation") or "") if meta["detected_by"].startswith("caught") else ""
            rows.append((sid, _summary(meta), meta["detected_by"], ob[:200]))
            continue
        rc, nv, first = res.get(sid, ("?", 0, ""))
        ob = ""
        m = re.search(r"obligation (.*?) :: (.*?) \(", first)
        if m:
            ob = f"`{m.group(1)}` :: {m.group(2)}"
        extra = EXTRA.get(sid) or meta.get("also_detected_by")
        if rc == 1:
            verdict = f"caught by {prop} ({nv} violation lines)"
        elif rc == 0:
            verdict = "NOT reported by " + prop
        elif rc is None:
            verdict = "does not apply"
        else:
            verdict = f"{prop} exits {rc} (no VIOLATION line)"
        if extra:
            verdict += f"; {extra}"
        rows.append((sid, _summary(meta), verdict, ob[:200]))
        meta["run_against"] = f"/repo HEAD {head}, bin/check {prop} --tier quick on a scratch worktree with the patch applied"
        meta["detected_by"] = verdict
        if ob:
            meta["first_failed_obligation"] = ob
        json.dump(meta, open(os.path.join(d, "meta.json"), "w"), indent=1)
    out = ["| seed | change (as described by its author) | outcome | first failed obligation |", "|------|------|---------|------|"]
    for r in rows:
        out.append("| " + " | ".join(r) + " |")
    caught = sum(1 for r in rows if r[2].startswith("caught"))
    text = "\n".join(out) + f"\n\n{caught} of {len(rows)} seeded changes are reported by the check of the property they were written for (quick tier).\n"
    p = os.path.join(ROOT, "DESIGN.md")
    s = open(p).read()
    a, b = "<!-- seeds-table:begin -->", "<!-- seeds-table:end -->"
    if a in s:
        s = s[:s.index(a) + len(a)] + "\n" + text + s[s.index(b):]
        open(p, "w").write(s)
    print(f"{caught}/{len(rows)}")


if __name__ == "__main__":
    main(sys.argv[1:])
