"""Stateless exploration of thread schedules over extracted atomic steps, with a preemption bound.

A *thread* is a generator; each ``next()`` executes one atomic step.  A step that yields ("sleep", ..) deschedules the
thread until some other thread has taken a step (a poll loop that re-reads unchanged state cannot make progress).
``explore`` enumerates every schedule with at most ``max_preempt`` preemptions (switching away from a thread that could
have continued); switches at sleeps and at thread ends are free.  Each schedule is re-executed from a fresh scenario.
"""
from __future__ import annotations


class Deadlock(Exception):
    pass


class Run:
    snapshot = None         # callable -> hashable view of the shared state (set by the scenario)

    def __init__(self, threads):
        self.names = [n for n, _ in threads]
        self.gens = dict(threads)
        self.done = {}
        self.results = {}
        self.errors = {}
        self.sleeping = {}          # name -> global step count when it went to sleep
        self.nsteps = 0
        self.trace = []
        self.paths = {n: 0 for n in self.names}       # per-thread hash of the control path taken so far

    def enabled(self):
        out = []
        for n in self.names:
            if n in self.done:
                continue
            if n in self.sleeping and self.sleeping[n] == self._snap():
                continue            # the shared state is what it was when it went to sleep: polling again changes nothing
            out.append(n)
        return out

    def _snap(self):
        return self.snapshot() if self.snapshot else self.nsteps

    def unfinished(self):
        return [n for n in self.names if n not in self.done]

    def step(self, n):
        g = self.gens[n]
        self.sleeping.pop(n, None)
        try:
            y = next(g)
        except StopIteration as s:
            self.done[n] = True
            self.results[n] = s.value
            y = ("end", 0)
        except Exception as e:          # the thread died with an exception
            self.done[n] = True
            self.errors[n] = e
            y = ("raise", 0)
        self.nsteps += 1
        if y and y[0] == "sleep":
            self.sleeping[n] = self._snap()
        self.trace.append((n, y))
        self.paths[n] = hash((self.paths[n], y))
        return y

    def key(self, cur):
        """state key for pruning: shared state + every thread's control path + who runs (assumption: a thread's future
        behaviour is determined by its control path and the shared state -- values read but not yet branched on are not
        part of the key)"""
        return (self._snap(), tuple(sorted(self.paths.items())), tuple(sorted(self.sleeping)), cur)


def run_schedule(make, schedule, max_steps=5000):
    """re-execute one schedule (list of thread names); after the list is used up, threads run round-robin without preemption"""
    run = _new(make)
    cur = None
    for n in schedule:
        if n in run.done:
            continue
        run.step(n)
        cur = n
    while run.unfinished():
        en = run.enabled()
        if not en:
            raise_dead(run)
        n = cur if cur in en else en[0]
        run.step(n)
        cur = n
        if run.nsteps > max_steps:
            raise RuntimeError("step budget exhausted")
    return run


def _new(make):
    run = Run(make())
    run.snapshot = getattr(make, "snapshot", None)
    return run


def raise_dead(run):
    e = Deadlock("no thread can move: " + ", ".join(run.unfinished()) + " wait(s) for a change nobody will make")
    e.run = run
    raise e


def explore(make, max_preempt, check, max_steps=400, limit=None):
    """DFS.  ``check(run)`` is called at the end of every complete schedule (and may raise AssertionError);
    returns (number of schedules, first failure or None) with failure = (schedule, message)"""
    count = 0
    seen = {}
    stack = [([], 0)]          # (schedule prefix, preemptions used)
    while stack:
        prefix, used = stack.pop()
        run = _new(make)
        cur = None
        for n in prefix:
            run.step(n)
            cur = n
        if prefix:
            k = run.key(cur)
            if seen.get(k, 99) <= used:
                continue
            seen[k] = used
        # extend deterministically (no preemption) until the end, pushing the alternatives
        sched = list(prefix)
        while run.unfinished():
            en = run.enabled()
            if not en:
                return count + 1, (sched, "deadlock: " + ", ".join(run.unfinished()) + " poll(s) for a change that no thread will make")
            default = cur if cur in en else en[0]
            for alt in en:
                if alt == default:
                    continue
                cost = 1 if (cur in en) else 0
                if used + cost <= max_preempt:
                    stack.append((sched + [alt], used + cost))
            run.step(default)
            sched.append(default)
            cur = default
            k = run.key(cur)
            if seen.get(k, 99) <= used and run.unfinished():
                break               # joins a state already explored with no more preemptions used
            seen[k] = used
            if run.nsteps > max_steps:
                return count + 1, (sched, "step budget exhausted (livelock?)")
        if run.unfinished():
            continue
        count += 1
        try:
            check(run)
        except AssertionError as e:
            return count, (sched, str(e))
        if limit and count >= limit:
            break
    return count, None
