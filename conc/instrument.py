"""Mechanical extraction of the *atomic steps* of the thread-socket code (C18).

Every run re-reads /repo's ``socket_hub.py`` and ``thread_socket/socket.py``, rewrites the methods that touch the hub
into generator functions that ``yield`` in front of every atomic statement, and executes the rewritten source in a
fresh module namespace.  A scheduler then decides which thread takes the next atomic step.

What the rewriting ADDS (nothing is dropped, no statement is changed):
  * ``yield ("step", lineno)`` in front of every simple statement / ``if`` / ``while`` test that is not inside a
    ``with self._lock:`` block (such a block is ONE atomic step: lock granularity), except statements that cannot
    touch state shared between threads (logger calls; in socket.py: statements that mention neither the hub, nor
    ``connected``, nor the wrapped ``method``) -- local statements commute with every step of every other thread,
    so leaving them out of the schedule loses no behaviour;
  * ``sleep(t)`` becomes ``yield ("sleep", lineno)`` (the thread is descheduled until another thread moved); a blocking
    ``<event>.wait(..)`` in the hub becomes ``while not <event>.is_set(): yield ("sleep", lineno)``;
  * a call of a rewritten method (``self._wait_for_remote(..)``, ``self._SOCKET_HUB.send(..)``, ``method(self, ..)``
    in the logging decorators) becomes ``yield from <call>``;
  * ``__init__`` / ``__del__`` of the socket classes are renamed ``_init_steps`` / ``_del_steps`` (a constructor
    cannot be a generator); ``super().__init__`` follows.
Atomicity assumed: one Python statement (or one lock block) is indivisible (DESIGN 5.C18).
"""
from __future__ import annotations

import ast
import os
import sys
import types

REPO = os.environ.get("VERIF_REPO", "/repo")
HUB = "netqasm/sdk/classical_communication/thread_socket/socket_hub.py"
SOCK = "netqasm/sdk/classical_communication/thread_socket/socket.py"
PKG = "netqasm.sdk.classical_communication.thread_socket"

HUB_METHODS = {"connect", "_add_callbacks", "disconnect", "_wait_for_remote", "send", "recv"}
SOCK_METHODS = {"__init__", "__del__", "send", "recv", "send_structured", "recv_structured", "send_silent", "recv_silent"}
RENAME = {"__init__": "_init_steps", "__del__": "_del_steps"}


def _is_lock_with(node):
    return isinstance(node, ast.With) and any(
        isinstance(i.context_expr, ast.Attribute) and i.context_expr.attr == "_lock" for i in node.items)


def _src(node):
    return ast.unparse(node)


class _Rewriter(ast.NodeTransformer):
    def __init__(self, which):
        self.which = which          # "hub" | "sock"
        self.aliases = set()
        self.steps = []             # (function, lineno, source) of every yield point

    # ---- which calls become `yield from`
    def _is_step_call(self, call):
        if not isinstance(call, ast.Call):
            return False
        f = call.func
        if isinstance(f, ast.Name) and f.id == "method" and self.which == "sock":
            return True
        if isinstance(f, ast.Attribute):
            if isinstance(f.value, ast.Name) and f.value.id == "self" and f.attr in HUB_METHODS and self.which == "hub":
                return True
            if isinstance(f.value, ast.Attribute) and f.value.attr == "_SOCKET_HUB" and f.attr in HUB_METHODS:
                return True
            if isinstance(f.value, ast.Name) and f.value.id == "self" and f.attr in SOCK_METHODS and self.which == "sock":
                return True         # one rewritten socket method delegating to another
            if isinstance(f.value, ast.Call) and isinstance(f.value.func, ast.Name) and f.value.func.id == "super" and f.attr in RENAME:
                return True
        return False

    def _yf(self, call):
        f = call.func
        if isinstance(f, ast.Attribute) and isinstance(f.value, ast.Call) and getattr(f.value.func, "id", "") == "super":
            f.attr = RENAME[f.attr]
        return ast.YieldFrom(value=call)

    LOCAL_ATTRS = {"_logger", "_lock", "__class__", "_CONNECT_SLEEP_TIME", "_RECV_SLEEP_TIME"}

    def _mentions_shared(self, node):
        for n in ast.walk(node):
            if isinstance(n, ast.Attribute) and isinstance(n.value, ast.Name) and n.value.id == "self" and n.attr.startswith("_") \
                    and n.attr not in self.LOCAL_ATTRS:
                return True
            if isinstance(n, ast.Name) and n.id in self.aliases:
                return True
        return False

    def _shared(self, stmt):
        if isinstance(stmt, ast.Expr) and isinstance(stmt.value, ast.Constant):
            return False            # docstring
        s = _src(stmt)
        if "_logger." in s and isinstance(stmt, ast.Expr):
            return False
        if self.which == "hub":
            sh = self._mentions_shared(stmt)
            if sh and isinstance(stmt, ast.Assign):
                for t in stmt.targets:
                    if isinstance(t, ast.Name):
                        self.aliases.add(t.id)      # a local that now refers to shared state (e.g. ``messages``)
            return sh
        return any(k in s for k in ("_SOCKET_HUB", "connected", "method(", "_storage"))

    def _mark(self, stmt, fn, kind="step"):
        self.steps.append((fn, stmt.lineno, _src(stmt).split("\n")[0][:90]))
        return ast.Expr(value=ast.Yield(value=ast.Tuple(elts=[ast.Constant(kind), ast.Constant(stmt.lineno)], ctx=ast.Load())))

    def block(self, body, fn):
        out = []
        for st in body:
            out.extend(self.stmt(st, fn))
        return out or [ast.Pass()]

    def stmt(self, st, fn):
        if _is_lock_with(st):
            return [self._mark(st, fn), st]
        if isinstance(st, ast.Expr) and isinstance(st.value, ast.Call):
            c = st.value
            if isinstance(c.func, ast.Name) and c.func.id == "sleep":
                return [self._mark(st, fn, "sleep")]
            if isinstance(c.func, ast.Attribute) and c.func.attr == "wait" and len(c.args) + len(c.keywords) <= 1 and self.which == "hub":
                # a blocking wait on a threading.Event: the thread is descheduled until the event is set (timeouts are not modelled)
                test = ast.UnaryOp(op=ast.Not(), operand=ast.Call(func=ast.Attribute(value=c.func.value, attr="is_set", ctx=ast.Load()), args=[], keywords=[]))
                return [ast.While(test=test, body=[self._mark(st, fn, "sleep")], orelse=[])]
            if self._is_step_call(c):
                return [ast.Expr(value=self._yf(c))]
        if isinstance(st, (ast.Assign, ast.AnnAssign)) and st.value is not None and self._is_step_call(st.value):
            st.value = self._yf(st.value)
            return [st]
        if isinstance(st, ast.Return) and st.value is not None and self._is_step_call(st.value):
            st.value = self._yf(st.value)
            return [st]
        if isinstance(st, ast.If):
            pre = [self._mark(st, fn)] if self._shared(ast.Expr(value=st.test)) else []
            st.body = self.block(st.body, fn)
            st.orelse = self.block(st.orelse, fn) if st.orelse else []
            return pre + [st]
        if isinstance(st, ast.While):
            const = isinstance(st.test, ast.Constant)
            body = self.block(st.body, fn)
            if not const:
                guard = ast.If(test=ast.UnaryOp(op=ast.Not(), operand=st.test), body=[ast.Break()], orelse=[])
                body = [self._mark(st, fn), guard] + body
                st.test = ast.Constant(True)
            st.body = body
            return [st]
        if isinstance(st, (ast.For, ast.With, ast.Try)):
            for name in ("body", "orelse", "finalbody"):
                if getattr(st, name, None):
                    setattr(st, name, self.block(getattr(st, name), fn))
            for h in getattr(st, "handlers", []):
                h.body = self.block(h.body, fn)
            return [st]
        if isinstance(st, (ast.FunctionDef, ast.ClassDef)):
            return [st]
        if self._shared(st):
            return [self._mark(st, fn), st]
        return [st]

    def gen(self, fdef, qual):
        self.aliases = set()
        # aliases are collected in statement order; lock blocks are scanned too (``with lock: messages = self._messages[k]``)
        for n in ast.walk(fdef):
            if isinstance(n, ast.Assign) and self.which == "hub" and self._mentions_shared(n.value):
                for t in n.targets:
                    if isinstance(t, ast.Name):
                        self.aliases.add(t.id)
        fdef.body = self.block(fdef.body, qual)
        if not any(isinstance(n, (ast.Yield, ast.YieldFrom)) for n in ast.walk(fdef)):
            fdef.body.append(ast.Expr(value=ast.Yield(value=ast.Tuple(elts=[ast.Constant("nop"), ast.Constant(fdef.lineno)], ctx=ast.Load()))))
        if fdef.name in RENAME:
            fdef.name = RENAME[fdef.name]
        return fdef


def _rewrite(path, which):
    src = open(os.path.join(REPO, path)).read()
    tree = ast.parse(src)
    rw = _Rewriter(which)
    for node in tree.body:
        if isinstance(node, ast.ClassDef):
            wanted = HUB_METHODS if which == "hub" else SOCK_METHODS
            for i, m in enumerate(node.body):
                if isinstance(m, ast.FunctionDef) and m.name in wanted and (which == "hub" or node.name in ("ThreadSocket", "StorageThreadSocket")):
                    node.body[i] = rw.gen(m, f"{node.name}.{m.name}")
        elif isinstance(node, ast.FunctionDef) and which == "sock" and node.name.startswith("log_"):
            for m in node.body:
                if isinstance(m, ast.FunctionDef) and m.name == "new_method":
                    rw.gen(m, f"{node.name}.new_method")
    ast.fix_missing_locations(tree)
    return ast.unparse(tree), rw.steps


class Stepped:
    """the rewritten modules: ``hub_mod``, ``sock_mod``, and the list of extracted steps"""

    def __init__(self):
        import importlib
        importlib.import_module(PKG + ".socket")        # real package (base classes, relative imports)
        hub_src, hub_steps = _rewrite(HUB, "hub")
        sock_src, sock_steps = _rewrite(SOCK, "sock")
        self.sources = {"hub": hub_src, "sock": sock_src}
        self.steps = hub_steps + sock_steps
        gen = os.path.join(os.path.dirname(os.path.dirname(os.path.abspath(__file__))), ".gen")
        os.makedirs(gen, exist_ok=True)
        tag = f"{os.getpid()}"
        paths = {}
        for k, src in self.sources.items():
            paths[k] = os.path.join(gen, f"stepped_{k}_{tag}.py")
            with open(paths[k], "w") as fh:
                fh.write(src)
        import atexit
        atexit.register(lambda: [os.path.exists(q) and os.remove(q) for q in paths.values()])
        self.hub_mod = types.ModuleType(PKG + ".socket_hub__steps")
        self.hub_mod.__package__ = PKG
        self.hub_mod.__file__ = paths["hub"]
        sys.modules[self.hub_mod.__name__] = self.hub_mod
        exec(compile(hub_src, self.hub_mod.__file__, "exec"), self.hub_mod.__dict__)
        self.sock_mod = types.ModuleType(PKG + ".socket__steps")
        self.sock_mod.__package__ = PKG
        self.sock_mod.__file__ = paths["sock"]
        sys.modules[self.sock_mod.__name__] = self.sock_mod
        exec(compile(sock_src, self.sock_mod.__file__, "exec"), self.sock_mod.__dict__)

    def fresh_hub(self):
        hub = self.hub_mod._SocketHub()
        self.sock_mod.ThreadSocket._SOCKET_HUB = hub
        return hub

    def new_socket(self, cls_name, *args, **kw):
        """generator: constructs a socket of the rewritten class step by step; returns the object"""
        cls = getattr(self.sock_mod, cls_name)
        obj = cls.__new__(cls)
        yield from obj._init_steps(*args, **kw)
        return obj
