"""Response matching oracle for C12, written from the property statement.

State:  ``pending`` undelivered responses in arrival order;  ``Qc`` / ``Qr`` outstanding create / receive
requests per (remote node, purpose), oldest first;  ``A`` arrays of the applications' memory (one table:
requests carry absolute array handles);  ``UM`` unit module;  ``USED`` physical qubits in use.

A response is *handleable* iff the queue selected by (remote node, purpose, role-by-directionality) is
non-empty and -- for a keep response -- the virtual qubit ``A[q_array][pair]`` of the OLDEST request is not
allocated.  Consuming it writes slice ``pair`` of that request's result array (10 fields per pair, enum ->
value), maps that virtual qubit to the delivered physical qubit, decrements the request and retires it
after exactly ``tot`` pairs.  ``retry`` repeats "consume the first handleable pending response" until none
is handleable;  ``deliver(r) = append r ; retry``.
"""
from enum import Enum

from netqasm.qlink_compat import ReturnType

OK_FIELDS = 10


class Req:
    def __init__(self, sid, ent_addr, q_addr, tot, left):
        self.sid = sid
        self.ent_addr = ent_addr
        self.q_addr = q_addr
        self.tot = tot
        self.left = left


class EprState:
    def __init__(self, node_id, pending, Qc, Qr, A, UM, USED):
        self.node_id = node_id
        self.pending = pending
        self.Qc = Qc
        self.Qr = Qr
        self.A = A
        self.UM = UM
        self.USED = USED


class Fault(Exception):
    pass


def queue_for(s, r):
    if r.directionality_flag == 1:
        creator = r.remote_node_id
    else:
        creator = s.node_id
    table = s.Qc if creator == s.node_id else s.Qr
    return table.get((r.remote_node_id, r.purpose_id))


def try_consume(s, r):
    q = queue_for(s, r)
    if q is None or len(q) == 0:
        return False
    d = q[0]
    pair = d.tot - d.left
    if r.type == ReturnType.OK_K:
        vq = s.A[d.q_addr][pair]
        if vq is None:
            raise Fault("virtual qubit id undefined")
        if vq >= 0 and vq < len(s.UM) and s.UM[vq] is not None:
            return False                      # never overwrite an allocated virtual qubit: defer
        if vq >= len(s.UM):
            raise Fault("virtual qubit outside the unit module")
        s.UM[vq] = r.logical_qubit_id
        s.USED.add(r.logical_qubit_id)
    d.left = d.left - 1
    if d.left == 0:
        q.pop(0)
    fields = [f.value if isinstance(f, Enum) else f for f in r]
    s.A[d.ent_addr][OK_FIELDS * pair:OK_FIELDS * pair + OK_FIELDS] = fields
    return True


def retry(s):
    progress = True
    while progress:
        progress = False
        k = 0
        while k < len(s.pending):
            r = s.pending[k]
            if r.type == ReturnType.ERR:
                raise Fault("error from the link layer")
            if try_consume(s, r):
                s.pending.pop(k)
                progress = True
                break
            k = k + 1


def deliver(s, r):
    s.pending.append(r)
    retry(s)
