"""Mini evaluator of the classical part of a proto-subroutine (list of ICmd with literal or register
operands): set, array, store, load, add, addm, sub, subm.  Used by C20/C10 to read off what a Future holds
after the emitted post-processing, for a given measurement outcome.  Semantics as in the instruction set:
addm/subm reduce modulo their last operand into [0, m)."""
from netqasm.lang.ir import GenericInstr
from netqasm.lang.operand import Address, ArrayEntry, Register


class ProtoState:
    def __init__(self):
        self.regs = {}
        self.arrays = {}

    def val(self, o):
        if isinstance(o, Register):
            return self.regs[o]
        if isinstance(o, int):
            return o
        raise TypeError(f"operand {o!r}")

    def entry(self, e):
        if not isinstance(e, ArrayEntry):
            raise TypeError(f"operand {e!r}")
        return e.address.address, self.val(e.index)

    def step(self, cmd):
        ins, ops = cmd.instruction, cmd.operands
        G = GenericInstr
        if ins == G.SET:
            self.regs[ops[0]] = self.val(ops[1])
        elif ins == G.ARRAY:
            addr = ops[1].address if isinstance(ops[1], Address) else ops[1]
            self.arrays[addr] = [None] * self.val(ops[0])
        elif ins == G.STORE:
            a, i = self.entry(ops[1])
            self.arrays.setdefault(a, {})
            self.arrays[a][i] = self.val(ops[0])
        elif ins == G.LOAD:
            a, i = self.entry(ops[1])
            self.regs[ops[0]] = self.arrays[a][i]
        elif ins == G.ADD:
            self.regs[ops[0]] = self.val(ops[1]) + self.val(ops[2])
        elif ins == G.SUB:
            self.regs[ops[0]] = self.val(ops[1]) - self.val(ops[2])
        elif ins == G.ADDM:
            self.regs[ops[0]] = (self.val(ops[1]) + self.val(ops[2])) % self.val(ops[3])
        elif ins == G.SUBM:
            self.regs[ops[0]] = (self.val(ops[1]) - self.val(ops[2])) % self.val(ops[3])
        else:
            return False
        return True
