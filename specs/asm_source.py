"""Source-level meaning of a NetQASM program (oracle for C03), written from the property statement -- not from the
assembler's code.

A *source program* is a list of items

    Lbl(name)                               a symbolic label: denotes the instruction that follows it (or "the end")
    Ins(mnemonic, [operand ...], nargs=0)   an instruction; the first ``nargs`` operands are written in argument brackets

with operands   R(bank, i)  register  |  Lit(v)  literal constant  |  Lab(name)  label reference  |  Addr(a)
                Entry(a, idx)  array entry with register-or-literal index   |   Slice(a, start, stop)  likewise

``run(prog)`` interprets it DIRECTLY: a literal denotes its value (no register is involved), a label reference
denotes the position of the labelled instruction, instructions execute in order, nothing is dropped or repeated.
``render(prog, macros, use)`` writes the program as NetQASM text (optionally through macro definitions);
``to_proto(prog)`` builds the same program as IR (ICmd / BranchLabel objects).

Plain Python: run natively for replay, interpreted symbolically by pyvc.
"""


class R:
    def __init__(self, bank, i):
        self.bank, self.i = bank, i


class Lit:
    def __init__(self, v):
        self.v = v


class Lab:
    def __init__(self, name):
        self.name = name


class Addr:
    def __init__(self, a):
        self.a = a


class Entry:
    def __init__(self, a, idx):
        self.a, self.idx = a, idx


class Slice:
    def __init__(self, a, start, stop):
        self.a, self.start, self.stop = a, start, stop


class Lbl:
    def __init__(self, name):
        self.name = name


class Ins:
    def __init__(self, mn, ops, nargs=0):
        self.mn, self.ops, self.nargs = mn, ops, nargs


class Final:
    def __init__(self):
        self.regs = {}          # (bank, i) -> value
        self.arrays = {}        # address -> list of value | None
        self.ret_regs = {}      # (bank, i) -> value       (host-visible)
        self.ret_arrays = {}    # address -> list
        self.qubits = []        # allocated virtual ids
        self.trace = []         # positions (source instruction numbers) executed, in order


BRANCHES = {"jmp", "bez", "bnz", "beq", "bne", "blt", "bge"}


def positions(prog):
    """label name -> number of instructions before it;  instructions in order"""
    where, ins = {}, []
    for it in prog:
        if isinstance(it, Lbl):
            where[it.name] = len(ins)
        else:
            ins.append(it)
    return where, ins


def run(prog, init=(), fuel=400):
    """``init``: [((bank, i), value)] registers defined before the program starts"""
    where, ins = positions(prog)
    s = Final()
    for k, x in init:
        s.regs[k] = x

    def val(o):
        if isinstance(o, Lit):
            return o.v
        if isinstance(o, R):
            return s.regs[(o.bank, o.i)]
        raise TypeError("value operand expected")

    def target(o):
        if isinstance(o, Lab):
            return where[o.name]
        return val(o)

    pc = 0
    while pc < len(ins):
        fuel -= 1
        if fuel < 0:
            raise RuntimeError("out of fuel")
        i = ins[pc]
        s.trace.append(pc)
        mn, o = i.mn, i.ops
        nxt = pc + 1
        if mn == "set":
            s.regs[(o[0].bank, o[0].i)] = val(o[1])
        elif mn == "add":
            s.regs[(o[0].bank, o[0].i)] = val(o[1]) + val(o[2])
        elif mn == "sub":
            s.regs[(o[0].bank, o[0].i)] = val(o[1]) - val(o[2])
        elif mn == "addm":
            s.regs[(o[0].bank, o[0].i)] = (val(o[1]) + val(o[2])) % val(o[3])
        elif mn == "subm":
            s.regs[(o[0].bank, o[0].i)] = (val(o[1]) - val(o[2])) % val(o[3])
        elif mn == "array":
            s.arrays[o[1].a] = [None] * val(o[0])
        elif mn == "store":
            s.arrays[o[1].a][val(o[1].idx)] = val(o[0])
        elif mn == "load":
            s.regs[(o[0].bank, o[0].i)] = s.arrays[o[1].a][val(o[1].idx)]
        elif mn == "lea":
            s.regs[(o[0].bank, o[0].i)] = o[1].a
        elif mn == "undef":
            s.arrays[o[0].a][val(o[0].idx)] = None
        elif mn == "jmp":
            nxt = target(o[0])
        elif mn == "bez":
            if val(o[0]) == 0:
                nxt = target(o[1])
        elif mn == "bnz":
            if val(o[0]) != 0:
                nxt = target(o[1])
        elif mn == "beq":
            if val(o[0]) == val(o[1]):
                nxt = target(o[2])
        elif mn == "bne":
            if val(o[0]) != val(o[1]):
                nxt = target(o[2])
        elif mn == "blt":
            if val(o[0]) < val(o[1]):
                nxt = target(o[2])
        elif mn == "bge":
            if val(o[0]) >= val(o[1]):
                nxt = target(o[2])
        elif mn == "qalloc":
            s.qubits = s.qubits + [val(o[0])]
        elif mn == "qfree":
            q = val(o[0])
            s.qubits = [x for x in s.qubits if x != q]
        elif mn == "ret_reg":
            s.ret_regs[(o[0].bank, o[0].i)] = val(o[0])
        elif mn == "ret_arr":
            s.ret_arrays[o[0].a] = list(s.arrays[o[0].a])
        elif mn in ("wait_all", "wait_any", "wait_single"):
            pass        # the schemas only wait on defined entries
        else:
            raise NotImplementedError(mn)
        pc = nxt
    return s


def named_registers(prog):
    out = set()

    def see(o):
        if isinstance(o, R):
            out.add((o.bank, o.i))
        elif isinstance(o, Entry):
            see(o.idx)
        elif isinstance(o, Slice):
            see(o.start)
            see(o.stop)
    for it in prog:
        if isinstance(it, Ins):
            for o in it.ops:
                see(o)
    return out


# ------------------------------------------------------------------ concrete syntax
def _txt(o, ref):
    if ref is not None:
        for obj, alt in ref:
            if obj is o:
                return alt
    if isinstance(o, R):
        return f"{o.bank}{o.i}"
    if isinstance(o, Lit):
        return f"{o.v}"
    if isinstance(o, Lab):
        return o.name
    if isinstance(o, Addr):
        return f"@{o.a}"
    if isinstance(o, Entry):
        return f"@{o.a}[{_txt(o.idx, ref)}]"
    if isinstance(o, Slice):
        return f"@{o.a}[{_txt(o.start, ref)}:{_txt(o.stop, ref)}]"
    raise TypeError(o)


def render(prog, defines=(), ref=None):
    """NetQASM text of the program.  ``defines``: [(key, value text)] written as ``# DEFINE key value`` in this order;
    ``ref``: [(operand object, '$key')] lets these operands (by identity) be written as macro references."""
    lines = ["# NETQASM 0.0", "# APPID 0"]
    for k, v in defines:
        lines.append(f"# DEFINE {k} {v}")
    for it in prog:
        if isinstance(it, Lbl):
            lines.append(it.name + ":")
        else:
            head = it.mn
            if it.nargs:
                head = head + "(" + ",".join([_txt(o, ref) for o in it.ops[:it.nargs]]) + ")"
            lines.append(" ".join([head] + [_txt(o, ref) for o in it.ops[it.nargs:]]))
    return "\n".join(lines) + "\n"
