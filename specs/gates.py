"""Exact operator semantics of the vanilla and NV gate mnemonics (oracle for C07/C20/C10).

Written from the gate definitions of the NetQASM instruction set, not from the code:
  x, y, z     Pauli operators;  h = (X+Z)/sqrt2;  k = (Y+Z)/sqrt2;  s = diag(1, i);  t = diag(1, e^{i pi/4})
  rot_a n d   exp(-i theta/2 sigma_a), theta = n*pi/2**d
  cnot c t, cphase c t;   mov src dst (state transfer onto a freshly initialised target)
  crot_a n d  (NV) electron-controlled rotation of the target: control |0> -> R_a(+theta), control |1> -> R_a(-theta)
All matrices over Z[zeta_64][1/2] (specs/cyc.py); wire 0 is the most significant bit.
"""
from __future__ import annotations

from .cyc import I, INV_SQRT2, ONE, ZERO, Cyc, cos_k, eye, kron, mat, matmul, sin_k, zeta

X = mat([[0, 1], [1, 0]])
Y = [[ZERO, -I], [I, ZERO]]
Z = mat([[1, 0], [0, -1]])
H = [[INV_SQRT2, INV_SQRT2], [INV_SQRT2, -INV_SQRT2]]
K = [[INV_SQRT2, -I * INV_SQRT2], [I * INV_SQRT2, -INV_SQRT2]]
S = [[ONE, ZERO], [ZERO, I]]
T = [[ONE, ZERO], [ZERO, zeta(8)]]
ID2 = eye(2)
STATIC = {"x": X, "y": Y, "z": Z, "h": H, "k": K, "s": S, "t": T}


def half_angle_k(n, d):
    """theta/2 = n*pi/2**(d+1) as a multiple k of pi/32, or None if not representable"""
    num = n * 32
    den = 2 ** (d + 1)
    if num % den != 0:
        return None
    return (num // den) % 64


def rot(axis, k):
    """rotation about ``axis`` by theta with theta/2 = k*pi/32"""
    c, s = cos_k(k), sin_k(k)
    if axis == "x":
        return [[c, -I * s], [-I * s, c]]
    if axis == "y":
        return [[c, -s], [s, c]]
    if axis == "z":
        return [[c - I * s, ZERO], [ZERO, c + I * s]]
    raise ValueError(axis)


def embed_1q(g, wire, n):
    m = None
    for w in range(n):
        f = g if w == wire else ID2
        m = f if m is None else kron(m, f)
    return m


def embed_ctrl(g0, g1, ctrl, tgt, n):
    """sum_b |b><b|_ctrl (x) g_b on tgt"""
    dim = 2 ** n
    out = [[ZERO] * dim for _ in range(dim)]
    for col in range(dim):
        b = (col >> (n - 1 - ctrl)) & 1
        g = g1 if b else g0
        t = (col >> (n - 1 - tgt)) & 1
        for t2 in (0, 1):
            row = col & ~(1 << (n - 1 - tgt)) | (t2 << (n - 1 - tgt))
            out[row][col] = g[t2][t]
    return out


def embed_swap(a, b, n):
    dim = 2 ** n
    out = [[ZERO] * dim for _ in range(dim)]
    for col in range(dim):
        ba = (col >> (n - 1 - a)) & 1
        bb = (col >> (n - 1 - b)) & 1
        row = col & ~(1 << (n - 1 - a)) & ~(1 << (n - 1 - b)) | (bb << (n - 1 - a)) | (ba << (n - 1 - b))
        out[row][col] = ONE
    return out


def vanilla_unitary(mnemonic, wires, n, angle=None):
    """spec operator of a vanilla gate on the given wires of an n-wire register"""
    if mnemonic in STATIC:
        return embed_1q(STATIC[mnemonic], wires[0], n)
    if mnemonic in ("rot_x", "rot_y", "rot_z"):
        k = half_angle_k(*angle)
        if k is None:
            raise ValueError("angle not on the pi/32 grid")
        return embed_1q(rot(mnemonic[-1], k), wires[0], n)
    if mnemonic == "cnot":
        return embed_ctrl(ID2, X, wires[0], wires[1], n)
    if mnemonic == "cphase":
        return embed_ctrl(ID2, Z, wires[0], wires[1], n)
    if mnemonic == "mov":
        return embed_swap(wires[0], wires[1], n)
    raise ValueError(mnemonic)


def nv_unitary(mnemonic, wires, n, angle):
    """operator denoted by an NV-flavour mnemonic"""
    k = half_angle_k(*angle)
    if k is None:
        raise ValueError("angle not on the pi/32 grid")
    if mnemonic in ("rot_x", "rot_y", "rot_z"):
        return embed_1q(rot(mnemonic[-1], k), wires[0], n)
    if mnemonic in ("crot_x", "crot_y"):
        ax = mnemonic[-1]
        return embed_ctrl(rot(ax, k), rot(ax, -k), wires[0], wires[1], n)
    raise ValueError(mnemonic)


def circuit_unitary(gates, n):
    """gates: list of (mnemonic, wires, angle) in execution order"""
    U = eye(2 ** n)
    for (m, wires, angle) in gates:
        U = matmul(nv_unitary(m, wires, n, angle), U)
    return U
