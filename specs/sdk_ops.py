"""Small host programs (one completed SDK operation each) used as subjects by the SDK-level obligations
(C14 balance / no-clobber, C05 structure).  Plain Python; interpreted by pyvc in symbolic mode like any other
code under contract, run natively for replay.  Each returns the registers the caller handed in (may be written)."""
from netqasm.lang.encoding import RegisterName
from netqasm.lang.operand import Register
from netqasm.sdk.constraint import ValueAtMostConstraint


def if_eq_future_int(conn, q, arr, reg):
    m = arr.get_future_index(0)
    with m.if_eq(1):
        q.X()
    return []


def if_ne_future_future(conn, q, arr, reg):
    with arr.get_future_index(0).if_ne(arr.get_future_index(1)):
        q.X()
    return []


def if_lt_regfuture_int(conn, q, arr, reg):
    with reg.if_lt(3):
        q.X()
    return []


def if_ge_future_regfuture(conn, q, arr, reg):
    with arr.get_future_index(1).if_ge(reg):
        q.X()
    return []


def if_ez_future(conn, q, arr, reg):
    with arr.get_future_index(0).if_ez():
        q.X()
    return []


def if_nz_future(conn, q, arr, reg):
    with arr.get_future_index(0).if_nz():
        q.X()
    return []


def if_nz_regfuture(conn, q, arr, reg):
    with reg.if_nz():
        q.X()
    return []


def if_eq_callback(conn, q, arr, reg):
    conn.if_eq(arr.get_future_index(0), 1, lambda c: q.X())
    return []


def if_ez_callback(conn, q, arr, reg):
    conn.if_ez(arr.get_future_index(0), lambda c: q.X())
    return []


def loop_context(conn, q, arr, reg):
    with conn.loop(3) as i:
        q.X()
    return []


def loop_context_nested_if(conn, q, arr, reg):
    with conn.loop(3) as i:
        with arr.get_future_index(i).if_eq(1):
            q.X()
    return []


def loop_context_explicit_register(conn, q, arr, reg):
    r5 = Register(RegisterName.R, 5)
    with conn.loop(3, loop_register=r5) as i:
        q.X()
    return [r5]


def loop_context_explicit_register_body_temp(conn, q, arr, reg):
    """the caller's loop register stays live over a body that needs temporaries"""
    r5 = Register(RegisterName.R, 5)
    with conn.loop(3, loop_register=r5) as i:
        arr.get_future_index(0).add(1)
        with arr.get_future_index(1).if_eq(2):
            q.X()
    return [r5]


def loop_context_explicit_register_by_name_body_temp(conn, q, arr, reg):
    with conn.loop(3, loop_register="R5") as i:
        arr.get_future_index(0).add(1)
        with arr.get_future_index(1).if_eq(2):
            q.X()
    return [Register(RegisterName.R, 5)]


def loop_body_callback(conn, q, arr, reg):
    conn.loop_body(lambda c, i: q.X(), stop=4)
    return []


def foreach(conn, q, arr, reg):
    with arr.foreach() as v:
        with v.if_eq(1):
            q.X()
    return []


def enumerate_add(conn, q, arr, reg):
    with arr.enumerate() as (i, v):
        v.add(1)
    return []


def loop_until_future(conn, q, arr, reg):
    with conn.loop_until(max_iterations=5) as loop:
        q.X()
        loop.set_exit_condition(ValueAtMostConstraint(arr.get_future_index(0), 2))
    return []


def loop_until_regfuture(conn, q, arr, reg):
    with conn.loop_until(max_iterations=5) as loop:
        q.X()
        loop.set_exit_condition(ValueAtMostConstraint(reg, 2))
    return []


def future_add_int(conn, q, arr, reg):
    arr.get_future_index(0).add(3)
    return []


def future_add_future_mod(conn, q, arr, reg):
    arr.get_future_index(0).add(arr.get_future_index(1), mod=2)
    return []


def future_add_on_future_indexed_entry(conn, q, arr, reg):
    arr.get_future_index(arr.get_future_index(2)).add(5)
    return []


def regfuture_add_int_mod(conn, q, arr, reg):
    reg.add(1, mod=2)
    return [reg.reg]


def future_add_any_int(conn, q, arr, reg, k=3):
    arr.get_future_index(0).add(k)
    return []


def future_add_any_int_mod(conn, q, arr, reg, k=3, m=2):
    arr.get_future_index(0).add(k, mod=m)
    return []


def regfuture_add_any_int(conn, q, arr, reg, k=1):
    reg.add(k)
    return [reg.reg]


def regfuture_add_any_int_mod(conn, q, arr, reg, k=1, m=2):
    reg.add(k, mod=m)
    return [reg.reg]


def enumerate_add_any_int(conn, q, arr, reg, k=1):
    with arr.enumerate() as (i, v):
        v.add(k)
    return []


def measure_into_register_then_flush(conn, q, arr, reg):
    q.measure(store_array=False, inplace=True)
    conn._builder.subrt_pop_pending_subroutine()
    conn._builder._reset()
    return "flushed"


def two_register_measurements_then_flush(conn, q, arr, reg):
    q.measure(store_array=False, inplace=True)
    q.measure(store_array=False, inplace=True)
    conn._builder.subrt_pop_pending_subroutine()
    conn._builder._reset()
    return "flushed"


def array_undefine(conn, q, arr, reg):
    arr.undefine()
    return []


def array_undefine_twice(conn, q, arr, reg):
    arr.undefine()
    conn.new_array(2, init_values=[1, 2]).undefine()
    return []


def measure_into_array(conn, q, arr, reg):
    q.measure(inplace=True)
    return []


def measure_into_future(conn, q, arr, reg):
    q.measure(future=arr.get_future_index(1), inplace=True)
    return []


def measure_into_future_indexed_entry(conn, q, arr, reg):
    q.measure(future=arr.get_future_index(arr.get_future_index(2)), inplace=True)
    return []


def array_equal_init_then_flush(conn, q, arr, reg):
    conn.new_array(4, init_values=[0, 0, 0, 0])
    conn._builder.subrt_pop_pending_subroutine()
    return "flushed"


def flush_only(conn, q, arr, reg):
    conn._builder.subrt_pop_pending_subroutine()
    conn._builder._reset()
    return "flushed"


OPS = {
    "if_eq(Future, int) context": if_eq_future_int,
    "if_ne(Future, Future) context": if_ne_future_future,
    "if_lt(RegFuture, int) context": if_lt_regfuture_int,
    "if_ge(Future, RegFuture) context": if_ge_future_regfuture,
    "if_ez(Future) context": if_ez_future,
    "if_nz(Future) context": if_nz_future,
    "if_nz(RegFuture) context": if_nz_regfuture,
    "if_eq callback": if_eq_callback,
    "if_ez callback": if_ez_callback,
    "loop context": loop_context,
    "loop context nested if": loop_context_nested_if,
    "loop context explicit register": loop_context_explicit_register,
    "loop context explicit register, body needs temporaries": loop_context_explicit_register_body_temp,
    "loop context explicit register given by name, body needs temporaries": loop_context_explicit_register_by_name_body_temp,
    "loop_body callback": loop_body_callback,
    "foreach": foreach,
    "enumerate + add": enumerate_add,
    "loop_until(Future)": loop_until_future,
    "loop_until(RegFuture)": loop_until_regfuture,
    "Future.add(int)": future_add_int,
    "Future.add(Future, mod)": future_add_future_mod,
    "Future.add on Future-indexed entry": future_add_on_future_indexed_entry,
    "RegFuture.add(int, mod)": regfuture_add_int_mod,
    "Future.add(any int)": future_add_any_int,
    "Future.add(any int, any mod)": future_add_any_int_mod,
    "RegFuture.add(any int)": regfuture_add_any_int,
    "RegFuture.add(any int, any mod)": regfuture_add_any_int_mod,
    "enumerate + add(any int)": enumerate_add_any_int,
    "measure into a register + flush": measure_into_register_then_flush,
    "two measurements into registers + flush": two_register_measurements_then_flush,
    "Array.undefine()": array_undefine,
    "Array.undefine() on two arrays": array_undefine_twice,
    "measure into array": measure_into_array,
    "measure into future": measure_into_future,
    "measure into Future-indexed entry": measure_into_future_indexed_entry,
    "array with equal initial values + flush": array_equal_init_then_flush,
    "flush": flush_only,
}


def _post_x(conn, q, pair):
    q.X()


def epr_op(conn, sock, kind, number, post):
    if kind == "create_keep":
        if post:
            sock.create_keep(number=number, sequential=True, post_routine=_post_x)
        else:
            sock.create_keep(number=number)
    elif kind == "recv_keep":
        if post:
            sock.recv_keep(number=number, sequential=True, post_routine=_post_x)
        else:
            sock.recv_keep(number=number)
    elif kind == "create_keep_min_fidelity":
        sock.create_keep(number=number, min_fidelity_all_at_end=80, max_tries=3)
    elif kind == "recv_keep_min_fidelity":
        sock.recv_keep(number=number, min_fidelity_all_at_end=80, max_tries=3)
    elif kind == "recv_measure":
        sock.recv_measure(number=number)
    elif kind == "create_measure":
        sock.create_measure(number=number)
    elif kind == "create_context":
        with sock.create_context(number=number) as (q, pair):
            q.X()
    elif kind == "recv_context":
        with sock.recv_context(number=number) as (q, pair):
            q.X()
    elif kind == "recv_rsp":
        sock.recv_rsp(number=number)
    else:
        raise ValueError(kind)
    return []
