"""Instruction semantics of the NetQASM core (oracle for C04 / C13 / C05), written from the
property statement -- NOT from the executor's code.

``step(s, i, hw, env)`` executes one instruction ``i`` on the abstract machine state ``s``:

    s.R     register file of the application   {bank: {index: value}}   (absent / None = undefined)
    s.A     arrays of the application           {address: [entry, ...]}  (entry None = undefined)
    s.pc    program counter of the subroutine
    s.SR    host-visible registers (shared memory), s.SA host-visible arrays
    s.UM    unit module: virtual address -> physical address | None
    s.USED  set of physical addresses in use (all applications)
    s.events  quantum events handed to the processor: (kind, mnemonic, [virtual ids], angle)

and raises ``Fault(kind)`` -- leaving ``s`` untouched -- for: use of an undefined value (store /
ret_reg of an undefined register, load of an undefined entry, undefined index / operand),
modulus below one, allocating an allocated or out-of-module qubit, freeing an unallocated
qubit, array index past the end, array that does not exist.  In hardware mode ``hw`` a
written value outside the signed 32-bit range faults ("overflow").

Plain Python; executed natively for replay and interpreted symbolically by pyvc (the
containers are then pyvc's symbolic maps / lists / sets).
"""


class Fault(Exception):
    def __init__(self, kind):
        Exception.__init__(self, kind)
        self.kind = kind


class State:
    def __init__(self, R, A, pc, SR, SA, UM, USED):
        self.R = R
        self.A = A
        self.pc = pc
        self.SR = SR
        self.SA = SA
        self.UM = UM
        self.USED = USED
        self.events = []


def min_unused(used):
    """smallest natural number not in ``used``"""
    p = 0
    while p in used:
        p += 1
    return p


def get_reg(s, reg):
    return s.R[reg.name].get(reg.index)


def check_width(v, hw):
    if hw:
        if v < -2147483648 or v > 2147483647:
            raise Fault("overflow")


def set_reg(s, reg, v, hw):
    check_width(v, hw)
    s.R[reg.name][reg.index] = v


def index_value(s, x):
    if isinstance(x, int):
        return x
    v = get_reg(s, x)
    if v is None:
        raise Fault("undefined-index")
    return v


def get_array(s, address):
    if address not in s.A:
        raise Fault("no-such-array")
    return s.A[address]


def entry_ref(s, entry):
    idx = index_value(s, entry.index)
    arr = get_array(s, entry.address.address)
    if idx >= len(arr):
        raise Fault("index-past-end")
    return arr, idx


def defined(v):
    if v is None:
        raise Fault("undefined-value")
    return v


def branch_taken(m, a, b):
    if m == "bez":
        return a == 0
    if m == "bnz":
        return a != 0
    if m == "beq":
        return a == b
    if m == "bne":
        return a != b
    if m == "blt":
        return a < b
    if m == "bge":
        return a >= b
    raise ValueError(m)


def step(s, i, hw, outcome=0, choice=None):
    m = i.mnemonic
    if m == "set":
        set_reg(s, i.reg, i.imm.value, hw)
    elif m == "lea":
        set_reg(s, i.reg, i.address.address, hw)
    elif m == "array":
        n = defined(get_reg(s, i.reg))
        s.A[i.address.address] = [None] * n
    elif m == "load":
        arr, idx = entry_ref(s, i.entry)
        v = defined(arr[idx])
        set_reg(s, i.reg, v, hw)
    elif m == "store":
        v = defined(get_reg(s, i.reg))
        arr, idx = entry_ref(s, i.entry)
        check_width(v, hw)
        arr[idx] = v
    elif m == "undef":
        arr, idx = entry_ref(s, i.entry)
        arr[idx] = None
    elif m == "add" or m == "sub" or m == "addm" or m == "subm":
        mod = None
        if m == "addm" or m == "subm":
            mod = defined(get_reg(s, i.reg3))
            if mod < 1:
                raise Fault("modulus-below-one")
        a = defined(get_reg(s, i.reg1))
        b = defined(get_reg(s, i.reg2))
        if m == "add":
            v = a + b
        elif m == "sub":
            v = a - b
        elif m == "addm":
            v = (a + b) % mod
        else:
            v = (a - b) % mod
        set_reg(s, i.reg0, v, hw)
    elif m == "jmp":
        s.pc = i.imm.value
        return
    elif m == "bez" or m == "bnz":
        a = defined(get_reg(s, i.reg))
        if branch_taken(m, a, None):
            s.pc = i.imm.value
            return
    elif m == "beq" or m == "bne" or m == "blt" or m == "bge":
        a = defined(get_reg(s, i.reg0))
        b = defined(get_reg(s, i.reg1))
        if branch_taken(m, a, b):
            s.pc = i.imm.value
            return
    elif m == "ret_reg":
        v = defined(get_reg(s, i.reg))
        check_width(v, hw)
        s.SR[i.reg.name][i.reg.index] = v
    elif m == "ret_arr":
        arr = get_array(s, i.address.address)
        s.SA[i.address.address] = arr          # the host sees the controller's array itself
    elif m == "qalloc":
        v = defined(get_reg(s, i.reg))
        if v >= len(s.UM):
            raise Fault("outside-unit-module")
        if s.UM[v] is not None:
            raise Fault("double-allocation")
        # which unused physical qubit is taken is the implementation's business ("any unused one"): ``choice`` is what it
        # took; the semantics only demand that it was not in use.  Without a choice: the smallest unused one.
        if choice is None:
            p = min_unused(s.USED)
        else:
            p = choice
            if p < 0 or p in s.USED:
                raise Fault("physical-qubit-chosen-is-in-use")
        s.UM[v] = p
        s.USED.add(p)
    elif m == "qfree":
        v = defined(get_reg(s, i.reg))
        if v >= len(s.UM):
            raise Fault("outside-unit-module")
        p = s.UM[v]
        if p is None:
            raise Fault("free-of-unallocated")
        s.UM[v] = None
        s.USED.remove(p)
        s.events.append(("clear", p))
    elif m == "meas":
        q = defined(get_reg(s, i.reg0))
        s.events.append(("meas", q))
        set_reg(s, i.reg1, outcome, hw)
    elif m == "init" or m == "x" or m == "y" or m == "z" or m == "h" or m == "s" or m == "k" or m == "t":
        q = defined(get_reg(s, i.reg))
        s.events.append(("single", m, q))
    elif m == "cnot" or m == "cphase" or m == "mov":
        q0 = defined(get_reg(s, i.reg0))
        q1 = defined(get_reg(s, i.reg1))
        s.events.append(("two", m, q0, q1))
    elif m == "rot_x" or m == "rot_y" or m == "rot_z":
        q = defined(get_reg(s, i.reg))
        s.events.append(("rot", m, q, i.imm0.value, i.imm1.value))
    elif m == "crot_x" or m == "crot_y":
        q0 = defined(get_reg(s, i.reg0))
        q1 = defined(get_reg(s, i.reg1))
        s.events.append(("crot", m, q0, q1, i.imm0.value, i.imm1.value))
    else:
        raise ValueError("no semantics for " + m)
    s.pc = s.pc + 1
