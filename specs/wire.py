"""Wire-format oracle for C02, written from the property statement (not from the code):

  every instruction is exactly 7 bytes: opcode, then the operands in declared order where
    register            1 byte : 2-bit bank in the low bits, then the 4-bit index
    immediate           1 unsigned byte
    integer / address   4 bytes little-endian two's complement
    array entry         address (4 bytes) then index register (1 byte)
    array slice         address (4 bytes) then start and stop registers (1 byte each)
  the rest is zero padding; a subroutine starts with two version bytes and a 16-bit
  little-endian app id.

Plain Python over ints; the same text is interpreted symbolically by pyvc."""


def reg_byte(reg):
    return reg.name.value + 4 * reg.index


def le32(v):
    u = v % 4294967296
    return [u % 256, (u // 256) % 256, (u // 65536) % 256, (u // 16777216) % 256]


def enc(opcode, kinds, operands):
    out = [opcode]
    for i in range(len(kinds)):
        k = kinds[i]
        o = operands[i]
        if k == "reg":
            out = out + [reg_byte(o)]
        elif k == "imm8":
            out = out + [o.value]
        elif k == "int32":
            out = out + le32(o.value)
        elif k == "addr":
            out = out + le32(o.address)
        elif k == "entry":
            out = out + le32(o.address.address) + [reg_byte(o.index)]
        elif k == "slice":
            out = out + le32(o.address.address) + [reg_byte(o.start), reg_byte(o.stop)]
        else:
            raise ValueError(k)
    if len(out) > 7:
        raise ValueError("operands do not fit the 7-byte command")
    return out + [0] * (7 - len(out))


def header(v0, v1, app_id):
    return [v0, v1, app_id % 256, app_id // 256]
