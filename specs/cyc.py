"""Exact arithmetic in Z[zeta][1/2] with zeta = exp(2*pi*i/64) (zeta**32 == -1).

An element is (coeffs, e): sum_k coeffs[k] * zeta**k / 2**e with coeffs a dict
{k: int} over the Q-basis zeta**0..zeta**31 (phi(64) == 32), so an element is zero iff
all coefficients are zero -- equality is decidable exactly, no floating point.

Contains cos/sin of every multiple of pi/32, i (= zeta**16), sqrt(2) (= zeta**8 - zeta**24).
"""
from __future__ import annotations

N = 32


class Cyc:
    __slots__ = ("c", "e")

    def __init__(self, c=None, e=0):
        c = {k: v for k, v in (c or {}).items() if v != 0}
        while e > 0 and c and all(v % 2 == 0 for v in c.values()):
            c = {k: v // 2 for k, v in c.items()}
            e -= 1
        if not c:
            e = 0
        self.c = c
        self.e = e

    @staticmethod
    def of(n):
        return n if isinstance(n, Cyc) else Cyc({0: int(n)})

    def is_zero(self):
        return not self.c

    def __eq__(self, o):
        o = Cyc.of(o)
        return (self - o).is_zero()

    def __hash__(self):
        return hash((tuple(sorted(self.c.items())), self.e))

    def __add__(self, o):
        o = Cyc.of(o)
        e = max(self.e, o.e)
        c = {}
        fa, fb = 1 << (e - self.e), 1 << (e - o.e)
        for k, v in self.c.items():
            c[k] = c.get(k, 0) + v * fa
        for k, v in o.c.items():
            c[k] = c.get(k, 0) + v * fb
        return Cyc(c, e)

    __radd__ = __add__

    def __neg__(self):
        return Cyc({k: -v for k, v in self.c.items()}, self.e)

    def __sub__(self, o):
        return self + (-Cyc.of(o))

    def __rsub__(self, o):
        return Cyc.of(o) - self

    def __mul__(self, o):
        o = Cyc.of(o)
        c = {}
        for k1, v1 in self.c.items():
            for k2, v2 in o.c.items():
                k = k1 + k2
                s = 1
                if k >= N:
                    k -= N
                    s = -1
                c[k] = c.get(k, 0) + s * v1 * v2
        return Cyc(c, self.e + o.e)

    __rmul__ = __mul__

    def half(self):
        return Cyc(dict(self.c), self.e + 1)

    def conj(self):
        c = {}
        for k, v in self.c.items():
            if k == 0:
                c[0] = c.get(0, 0) + v
            else:
                c[N - k] = c.get(N - k, 0) - v      # zeta**-k = -zeta**(32-k)
        return Cyc(c, self.e)

    def to_complex(self):
        import cmath
        import math
        return sum(v * cmath.exp(2j * math.pi * k / 64) for k, v in self.c.items()) / (2 ** self.e)

    def __repr__(self):
        return f"Cyc({self.c},/2^{self.e})"


def zeta(k):
    k %= 64
    if k >= N:
        return Cyc({k - N: -1})
    return Cyc({k: 1})


ZERO = Cyc()
ONE = Cyc({0: 1})
I = zeta(16)
SQRT2 = zeta(8) - zeta(24)
INV_SQRT2 = SQRT2.half()


def cos_k(k):
    """cos(k*pi/32)"""
    return (zeta(k) + zeta(-k)).half()


def sin_k(k):
    """sin(k*pi/32) = (zeta^k - zeta^-k) / (2i) = -i (zeta^k - zeta^-k)/2"""
    return (-I) * (zeta(k) - zeta(-k)).half()


# ------------------------------------------------------------------ matrices (lists of lists)
def mat(rows):
    return [[Cyc.of(x) for x in r] for r in rows]


def eye(n):
    return [[ONE if i == j else ZERO for j in range(n)] for i in range(n)]


def matmul(A, B):
    n, m, p = len(A), len(B), len(B[0])
    out = []
    for i in range(n):
        row = []
        for j in range(p):
            s = ZERO
            for k in range(m):
                a = A[i][k]
                if a.is_zero():
                    continue
                b = B[k][j]
                if b.is_zero():
                    continue
                s = s + a * b
            row.append(s)
        out.append(row)
    return out


def kron(A, B):
    return [[a * b for a in ra for b in rb] for ra in A for rb in B]


def dagger(A):
    return [[A[j][i].conj() for j in range(len(A))] for i in range(len(A[0]))]


def mat_eq(A, B):
    return all(a == b for ra, rb in zip(A, B) for a, b in zip(ra, rb))


def eq_up_to_phase(A, B):
    """A == c * B for a scalar c != 0 (both assumed non-zero); exact."""
    n, m = len(A), len(A[0])
    piv = None
    for i in range(n):
        for j in range(m):
            if not B[i][j].is_zero():
                piv = (i, j)
                break
        if piv:
            break
    if piv is None:
        return all(a.is_zero() for r in A for a in r)
    k, l = piv
    if A[k][l].is_zero():
        return False
    for i in range(n):
        for j in range(m):
            if not (A[i][j] * B[k][l] == A[k][l] * B[i][j]):
                return False
    return True


def is_unitary(A):
    return mat_eq(matmul(A, dagger(A)), eye(len(A)))


def to_numpy(A):
    import numpy as np
    return np.array([[x.to_complex() for x in r] for r in A])
