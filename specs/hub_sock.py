"""Minimal endpoint object for the hub-level contracts of C18: what _SocketHub reads from a socket (key, remote_key,
use_callbacks, the two callbacks).  The callbacks record what they were given."""


class Sock:
    def __init__(self, key, remote_key, use_callbacks=False):
        self.key = key
        self.remote_key = remote_key
        self.use_callbacks = use_callbacks
        self.app_name = key[0]
        self.remote_app_name = key[1]
        self.id = key[2]
        self.storage = []
        self.lost = 0

    def recv_callback(self, msg):
        self.storage.append(msg)

    def conn_lost_callback(self):
        self.lost += 1


class StubHub:
    """records how the socket-level wrappers call the hub (C18 forwarding contracts)"""

    def __init__(self, connected, reply):
        self.connected = connected
        self.reply = reply
        self.calls = []

    def is_connected(self, socket):
        return self.connected

    # generators: the socket-level code under contract is the step-wise rewritten one (``yield from hub.send(..)``)
    def send(self, socket, msg):
        self.calls.append(("send", socket, msg))
        yield ("step", 0)

    def recv(self, socket, block=True, timeout=None):
        self.calls.append(("recv", socket, block, timeout))
        yield ("step", 0)
        return self.reply


def clear_yielding(events, physical_address):
    """processor hook of the base executor, as the base class defines it: one yield per cleared qubit (C13 interleaving)"""
    events.append(("clear", physical_address))
    yield None
