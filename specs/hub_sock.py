"""Minimal endpoint object for the hub-level contracts of C18: what _SocketHub reads from a socket (key, remote_key,
use_callbacks, the two callbacks).  The callbacks record what they were given."""


class Sock:
    def __init__(self, key, remote_key, use_callbacks=False):
        self.key = key
        self.remote_key = remote_key
        self.use_callbacks = use_callbacks
        self.app_name = key[0]
        self.remote_app_name = key[1]
        self.id = key[2]
        self.storage = []
        self.lost = 0

    def recv_callback(self, msg):
        self.storage.append(msg)

    def conn_lost_callback(self):
        self.lost += 1


class StubHub:
    """records how the socket-level wrappers call the hub (C18 forwarding contracts)"""

    def __init__(self, connected, reply):
        self.connected = connected
        self.reply = reply
        self.calls = []

    def is_connected(self, socket):
        return self.connected

    # generators: the socket-level code under contract is the step-wise rewritten one (``yield from hub.send(..)``)
    def send(self, socket, msg):
        self.calls.append(("send", socket, msg))
        yield ("step", 0)

    def recv(self, socket, block=True, timeout=None):
        self.calls.append(("recv", socket, block, timeout))
        yield ("step", 0)
        return self.reply


def clear_yielding(events, physical_address):
    """processor hook of the base executor, as the base class defines it: one yield per cleared qubit (C13 interleaving)"""
    events.append(("clear", physical_address))
    yield None


class QueueSock:
    """stand-in endpoint for the broadcast-channel contract: a queue of pending messages; non-blocking receive pops the head or
    reports emptiness (the contract of ThreadSocket.recv(block=False), proved separately)"""
    PENDING = {}          # remote name -> list of pending messages (set by the obligation before the channel is built)
    SENT = []

    def __init__(self, app_name, remote_app_name, **kwargs):
        self.app_name = app_name
        self.remote_app_name = remote_app_name
        self.queue = QueueSock.PENDING.get(remote_app_name, [])
        self.polls = 0

    def send(self, msg):
        QueueSock.SENT.append((self.remote_app_name, msg))

    def recv(self, block=True, timeout=None, maxsize=None):
        self.polls += 1
        if len(self.queue) == 0:
            raise RuntimeError("No message to receive")
        return self.queue.pop(0)
