"""Host programs (SDK constructs) used as subjects of C05 / C06 / C09; plain Python, interpreted by pyvc.
Each takes the connection and data values (possibly symbolic) and returns the handles the host reads afterwards."""
from netqasm.sdk.constraint import ValueAtMostConstraint
from netqasm.sdk.qubit import Qubit


def if_binary(conn, kind, a, b, b_is_future):
    """if <a kind b>: X(q)  with a in an array entry and b an int or another entry"""
    arr = conn.new_array(2, init_values=[a, b])
    q = Qubit(conn)
    x = arr.get_future_index(0)
    other = arr.get_future_index(1) if b_is_future else b
    ctxm = getattr(x, "if_" + kind)(other)
    with ctxm:
        q.X()
    conn.flush()
    return arr, q


def if_binary_callback(conn, kind, a, b):
    arr = conn.new_array(1, init_values=[a])
    q = Qubit(conn)
    getattr(conn, "if_" + kind)(arr.get_future_index(0), b, lambda c: q.X())
    conn.flush()
    return arr, q


def if_unary(conn, kind, a, use_register):
    arr = conn.new_array(1, init_values=[a])
    q = Qubit(conn)
    if use_register:
        x = conn._builder.new_register(a)
    else:
        x = arr.get_future_index(0)
    with getattr(x, "if_" + kind)():
        q.X()
    conn.flush()
    return arr, q


def loop_measure(conn, n, start, step):
    """for i in range(start, stop, step): outcomes[i] = measure(fresh qubit)"""
    outcomes = conn.new_array(8)
    with conn.loop(n, start=start, step=step) as i:
        q = Qubit(conn)
        q.H()
        q.measure(future=outcomes.get_future_index(i))
    conn.flush()
    return outcomes


def loop_body_measure(conn, n):
    outcomes = conn.new_array(8)

    def body(c, i):
        q = Qubit(c)
        q.measure(future=outcomes.get_future_index(i))
    conn.loop_body(body, stop=n)
    conn.flush()
    return outcomes


def foreach_add(conn, vals, k):
    arr = conn.new_array(len(vals), init_values=list(vals))
    with arr.foreach() as v:
        v.add(k)
    conn.flush()
    return arr


def enumerate_copy(conn, vals):
    """dst[i] = src[i] + i  (uses index register and value future)"""
    src = conn.new_array(len(vals), init_values=list(vals))
    dst = conn.new_array(len(vals), init_values=[0] * len(vals))
    with src.enumerate() as (i, v):
        d = dst.get_future_index(i)
        d.add(v)
        d.add(i)
    conn.flush()
    return src, dst


def loop_until_measure(conn, max_iter, bound):
    """repeat: m = measure(fresh qubit) ; until m <= bound   (at most max_iter times)"""
    res = conn.new_array(1, init_values=[7])
    count = conn.new_array(1, init_values=[0])
    with conn.loop_until(max_iterations=max_iter) as loop:
        q = Qubit(conn)
        q.measure(future=res.get_future_index(0))
        count.get_future_index(0).add(1)
        loop.set_exit_condition(ValueAtMostConstraint(res.get_future_index(0), bound))
    conn.flush()
    return res, count


def future_add(conn, a, b, mod, b_is_future):
    arr = conn.new_array(2, init_values=[a, b])
    x = arr.get_future_index(0)
    other = arr.get_future_index(1) if b_is_future else b
    if mod is None:
        x.add(other)
    else:
        x.add(other, mod=mod)
    conn.flush()
    return arr


def future_add_variants(conn, a, b, i, variant):
    """operand combinations of Future.add beyond (entry, int) and (entry, entry): the same entry on both sides (through the same handle or
    through a second handle), a RegFuture operand, Future-indexed entries on one or both sides"""
    arr = conn.new_array(4, init_values=[a, b, i, 1])
    if variant == "same handle":
        x = arr.get_future_index(0)
        x.add(x)
    elif variant == "second handle of the same entry":
        arr.get_future_index(0).add(arr.get_future_index(0))
    elif variant == "RegFuture operand":
        r = conn._builder.new_register(b)
        arr.get_future_index(0).add(r)
    elif variant == "Future-indexed target":
        # arr[arr[2]] += b   (i is 0 or 1 ... the entry itself holds the index)
        arr.get_future_index(arr.get_future_index(2)).add(7)
    elif variant == "Future-indexed target and operand":
        # arr[arr[2]] += arr[arr[3]]      (arr[3] == 1)
        arr.get_future_index(arr.get_future_index(2)).add(arr.get_future_index(arr.get_future_index(3)))
    else:
        raise ValueError(variant)
    conn.flush()
    return arr


def regfuture_add(conn, a, b, mod):
    r = conn._builder.new_register(a)
    if mod is None:
        r.add(b)
    else:
        r.add(b, mod=mod)
    conn.flush()
    return r


def array_init(conn, vals):
    arr = conn.new_array(len(vals), init_values=list(vals))
    conn.flush()
    return arr


def measure_kinds(conn):
    q0 = Qubit(conn)
    q1 = Qubit(conn)
    q2 = Qubit(conn)
    m0 = q0.measure()
    m1 = q1.measure(store_array=False)
    tgt = conn.new_array(3)
    q2.measure(future=tgt.get_future_index(2))
    conn.flush()
    return m0, m1, tgt


def nested_if_in_loop(conn, vals, k):
    """for i: if vals[i] == k: cnt += 1"""
    arr = conn.new_array(len(vals), init_values=list(vals))
    cnt = conn.new_array(1, init_values=[0])
    with arr.foreach() as v:
        with v.if_eq(k):
            cnt.get_future_index(0).add(1)
    conn.flush()
    return arr, cnt


def nested_loop_in_if(conn, a, n):
    arr = conn.new_array(1, init_values=[a])
    cnt = conn.new_array(1, init_values=[0])
    with arr.get_future_index(0).if_nz():
        with conn.loop(n) as i:
            cnt.get_future_index(0).add(2)
    conn.flush()
    return cnt


def split_flush(conn, a):
    """an array allocated in the first flush is updated in the second and third; the host reads it after each"""
    arr = conn.new_array(2, init_values=[a, 0])
    conn.flush()
    first = [arr[0], arr[1]]
    arr.get_future_index(0).add(5)
    q = Qubit(conn)
    q.measure(future=arr.get_future_index(1))
    conn.flush()
    second = [arr[0], arr[1]]
    arr.get_future_index(0).add(1)
    conn.flush()
    third = [arr[0], arr[1]]
    return first, second, third


def same_future_in_two_conditions(conn, a, c1, c2, flush_between):
    """ONE Future handle used as the operand of two conditions (optionally in two subroutines): X if a == c1, then Y if a != c2"""
    arr = conn.new_array(2, init_values=[a, 7])
    q = Qubit(conn)
    x = arr.get_future_index(0)
    with x.if_eq(c1):
        q.X()
    if flush_between:
        conn.flush()
    with x.if_ne(c2):
        q.Y()
    with x.if_lt(c2):
        q.Z()
    conn.flush()
    return arr, q


def handle_read_by_host_then_changed_then_tested(conn, a, b, c):
    """the Host reads a Future handle after a flush; a later subroutine changes the entry and then branches on THE SAME handle:
    the branch sees the entry's current value (a + b), not what the Host read earlier"""
    arr = conn.new_array(2, init_values=[a, 7])
    x = arr.get_future_index(0)
    conn.flush()
    seen = int(x)
    x.add(b)
    q = Qubit(conn)
    with x.if_eq(c):
        q.X()
    with x.if_lt(c):
        q.Z()
    conn.flush()
    return seen, arr


def arrays_on_both_sides_of_a_flush(conn, a, b):
    """arrays are allocated before AND after a flush; the earlier one is still used afterwards: distinct arrays stay distinct"""
    first = conn.new_array(2, init_values=[a, 1])
    conn.flush()
    second = conn.new_array(3, init_values=[b, 2, 3])
    first.get_future_index(0).add(10)
    second.get_future_index(0).add(20)
    conn.flush()
    third = conn.new_array(1, init_values=[5])
    first.get_future_index(1).add(100)
    conn.flush()
    return [first[0], first[1]], [second[0], second[1], second[2]], [third[0]]


def two_register_measurements(conn):
    """two measurements into registers before one flush, then a branch on the first"""
    q0 = Qubit(conn)
    q1 = Qubit(conn)
    q2 = Qubit(conn)
    m0 = q0.measure(store_array=False)
    m1 = q1.measure(store_array=False)
    with m0.if_eq(1):
        q2.X()
    conn.flush()
    return m0, m1


def templated_rotation(conn, n, d, args, axis):
    """rotation whose numerator is a template when ``args`` is given: compile / instantiate / commit; else plain flush.
    Followed by more operations and an ordinary flush (checks the connection state left behind)."""
    q = Qubit(conn)
    getattr(q, "rot_" + axis)(n=n, d=d)
    m = q.measure()
    if args is not None:
        sub = conn.compile()
        sub.instantiate(conn.app_id, args)
        conn.commit_subroutine(sub)
    else:
        conn.flush()
    first = int(m)
    q2 = Qubit(conn)
    q2.H()
    m2 = q2.measure()
    conn.flush()
    return first, int(m), int(m2)


def templated_rounds_register_measurement(conn, n, d, args, rounds):
    """several pre-compiled rounds in a row, each measuring into a REGISTER (store_array=False), no ordinary flush in between;
    afterwards one ordinary flush.  With ``args`` None the same rounds are flushed directly."""
    out = []
    for _ in range(rounds):
        q = Qubit(conn)
        q.rot_X(n=n, d=d)
        m = q.measure(store_array=False)
        if args is not None:
            sub = conn.compile()
            sub.instantiate(conn.app_id, args)
            conn.commit_subroutine(sub)
        else:
            conn.flush()
        out.append(int(m))
    q2 = Qubit(conn)
    m2 = q2.measure(store_array=False)
    conn.flush()
    out.append(int(m2))
    return out


def compile_flush_other_work_then_commit(conn, n, d, args):
    """a templated block that owns an array is compiled; OTHER work is built and flushed; then the block is instantiated and committed.
    With ``args`` None: the block is flushed first, then the other work (same order of effects on the controller is not required: the host
    values and the committed subroutines, as a set per block, are compared)."""
    q = Qubit(conn)
    q.rot_Y(n=n, d=d)
    m = q.measure()                       # array-backed outcome owned by the block
    if args is not None:
        sub = conn.compile()
        q2 = Qubit(conn)
        q2.X()
        m2 = q2.measure()
        conn.flush()                      # other work, flushed between compile and commit
        sub.instantiate(conn.app_id, args)
        conn.commit_subroutine(sub)
    else:
        conn.flush()
        q2 = Qubit(conn)
        q2.X()
        m2 = q2.measure()
        conn.flush()
    q3 = Qubit(conn)
    m3 = q3.measure()
    conn.flush()
    return int(m), int(m2), int(m3)


def compile_then_queue_then_commit(conn, n, d, args):
    """operations queued between compile() and commit_subroutine() must survive (they belong to the next flush)"""
    q = Qubit(conn)
    q.rot_Z(n=n, d=d)
    if args is not None:
        sub = conn.compile()
        q3 = Qubit(conn)
        m3 = q3.measure()
        sub.instantiate(conn.app_id, args)
        conn.commit_subroutine(sub)
    else:
        conn.flush()
        q3 = Qubit(conn)
        m3 = q3.measure()
    conn.flush()
    return int(m3)


def qubit_history(conn, sock, handles, prims):
    """run a sequence of qubit primitives on the handle list (mutated in place); 'flush' flushes"""
    for p in prims:
        kind = p[0]
        if kind == "new":
            handles.append(Qubit(conn))
        elif kind == "x":
            handles[p[1]].X()
        elif kind == "cnot":
            handles[p[1]].cnot(handles[p[2]])
        elif kind == "meas_inplace":
            handles[p[1]].measure(inplace=True)
        elif kind == "meas":
            handles[p[1]].measure()
            handles.pop(p[1])
        elif kind == "free":
            handles[p[1]].free()
            handles.pop(p[1])
        elif kind == "create_keep":
            handles.extend(sock.create_keep(number=p[1]))
        elif kind == "recv_keep":
            handles.extend(sock.recv_keep(number=p[1]))
        elif kind == "flush":
            conn.flush()
        else:
            raise ValueError(kind)
    return handles


def epr_context_measure(conn, sock):
    with sock.create_context(number=2) as (q, pair):
        q.measure()
    conn.flush()


def epr_sequential_measure(conn, sock, role):
    """sequential keep request whose post routine measures (and thereby releases) every pair"""
    if role == "create":
        sock.create_keep(number=2, sequential=True, post_routine=_noop_post)
    else:
        sock.recv_keep(number=2, sequential=True, post_routine=_noop_post)
    conn.flush()


def epr_keep_two(conn, sock, role):
    """keep request for two pairs, all at once; both qubits are used afterwards"""
    qs = sock.create_keep(number=2) if role == "create" else sock.recv_keep(number=2)
    for q in qs:
        q.H()
    conn.flush()


def _noop_post(conn, q, pair):
    q.H()
    q.measure()


def epr_receive(conn, sock, variant, number, expect_phi_plus, extra_qubits):
    """receive entangled pairs in one of the API variants, with ``extra_qubits`` other qubits alive (shifts the virtual ids)"""
    others = [Qubit(conn) for _ in range(extra_qubits)]
    if variant == "recv_keep":
        qs = sock.recv_keep(number=number, expect_phi_plus=expect_phi_plus)
    elif variant == "recv_keep_with_info":
        qs, _ = sock.recv_keep_with_info(number=number, expect_phi_plus=expect_phi_plus)
    elif variant == "recv_keep_post":
        qs = sock.recv_keep(number=number, sequential=True, post_routine=_noop_post, expect_phi_plus=expect_phi_plus)
    elif variant == "recv_keep_post_nonseq":
        qs = sock.recv_keep(number=number, sequential=False, post_routine=_noop_post, expect_phi_plus=expect_phi_plus)
    elif variant == "recv_keep_then_post":
        # two receives on ONE connection: a plain one, then a sequential one with a post routine (number - 1 pairs)
        qs = sock.recv_keep(number=1, expect_phi_plus=expect_phi_plus)
        qs = qs + sock.recv_keep(number=number - 1, sequential=True, post_routine=_noop_post, expect_phi_plus=expect_phi_plus)
    elif variant == "recv_post_then_keep":
        qs = sock.recv_keep(number=number - 1, sequential=True, post_routine=_noop_post, expect_phi_plus=expect_phi_plus)
        qs = qs + sock.recv_keep(number=1, expect_phi_plus=expect_phi_plus)
    elif variant == "recv_rsp":
        qs = sock.recv_rsp(number=number, expect_phi_plus=expect_phi_plus)
    elif variant == "recv_rsp_with_info":
        qs, _ = sock.recv_rsp_with_info(number=number, expect_phi_plus=expect_phi_plus)
    else:
        raise ValueError(variant)
    conn.flush()
    return qs
