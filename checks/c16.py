"""C16 -- operands the format cannot represent are rejected, never silently altered.

Contract per instruction class, over **all mathematical integers** in every operand field
(no range precondition):

    x.serialize() raises   or   deserialize_from(x.serialize()) == x

and for the subroutine header (app id, version bytes) likewise.  Entry routes (text
assembler, SDK rotation numerators) are checked end-to-end on concrete out-of-range
values as a labelled *bounded* stand-in (the parser is brought under symbolic execution
in C17/C03; the range obligation itself is discharged at the encoder, through which
every route passes).
"""
from __future__ import annotations

from netqasm.lang.instr import core
from netqasm.lang.parsing import binary
from netqasm.lang.subroutine import Subroutine
from pyvc.harness import Registry

from .codec_common import FLAVOURS, all_classes, cname, mk_instr, table_entry

LEVEL = "proof"
TECHNIQUE = ("contract-based deductive verification: 'returns normally => decodes to the same operands' per instruction shape over "
             "unbounded integers, VCs from symbolic execution of the real serialisers (ctypes truncation modelled), z3 LIA")


def build():
    R = Registry("C16")
    R.explanation = ("for every instruction class and the subroutine header: serialisation either raises or the bytes decode to the "
                     "same operands, for all integers (not only encodable ones); routes via assembler/SDK bounded")
    R.trusted = [
        "ctypes model: a store of any Python int into a field keeps it modulo 2**width without error (validated against CPython)",
        "dataclass/enum/builtin models of pyvc.models; z3 LIA with div/mod by constants over unbounded integers",
    ]
    R.assumptions = ["register bank is an enum member (cannot be out of range by construction)",
                     "entry routes (parse_text_subroutine, SDK rot_*) are exercised on concrete out-of-range values only (bounded, see coverage.bounded)"]
    R.dropped = ["docstrings, type annotations, logging calls"]

    for c in all_classes():
        ent = table_entry(c)
        kinds = ent[1]

        def mk(c=c, kinds=kinds):
            def f(ctx):
                x = mk_instr(ctx, c, kinds, in_range=False)
                out = ctx.attempt(x.serialize)
                if out[0] == "exc":
                    ctx.cover("rejects")
                    ctx.check("rejection-is-an-error", isinstance(out[1], Exception))
                    return
                ctx.cover("accepts")
                y = ctx.call(c.deserialize_from, out[1])
                ctx.check("accepted-operands-decode-unchanged", ctx.eq(y, x))
            return f
        R.add(f"encode-or-reject[{cname(c)}]", kind="lia", samples=60)(mk())

    def header(ctx):
        app = ctx.int("app_id")
        v0 = ctx.int("v0")
        v1 = ctx.int("v1")
        x = mk_instr(ctx, core.SetInstruction, ["reg", "int32"])
        sub = ctx.call(Subroutine, instructions=[x], app_id=app, netqasm_version=(v0, v1))
        out = ctx.attempt(bytes, sub)
        if out[0] == "exc":
            ctx.check("rejection-is-an-error", isinstance(out[1], Exception))
            return
        sub2 = ctx.call(binary.deserialize, out[1])
        ctx.check("app-id-unchanged", ctx.eq(ctx.getattr(sub2, "app_id"), app))
        ctx.check("version-unchanged", ctx.eq(tuple(ctx.getattr(sub2, "netqasm_version")), (v0, v1)))
    R.add("encode-or-reject[subroutine-header]", kind="lia", samples=80)(header)

    # ---- entry routes: bounded stand-ins (concrete out-of-range values through the real assembler / SDK)
    def route_text(ctx):
        from netqasm.lang.parsing.text import parse_text_subroutine
        kind = ctx.choice("kind", ["reg", "imm8", "int32", "addr", "appid"])
        big = ctx.choice("mag", [0, 1, 1000, 2 ** 40])
        if kind == "reg":
            v = 16 + big
            text, expect = f"set R{v} 1\n", None
        elif kind == "imm8":
            v = ctx.choice("neg", [256 + big, -1 - big])
            text = f"set Q0 0\nrot_x Q0 {v} 1\n"
        elif kind == "int32":
            v = ctx.choice("neg", [2 ** 31 + big, -2 ** 31 - 1 - big])
            text = f"set R1 {v}\n"
        elif kind == "addr":
            v = 2 ** 31 + big
            text = f"set R0 0\nload R1 @{v}[R0]\n"
        else:
            v = 65536 + big
            text = "set R0 0\n"
        pre = f"# NETQASM 0.0\n# APPID {v if kind == 'appid' else 0}\n"
        try:
            sub = parse_text_subroutine(pre + text)
            raw = bytes(sub)
        except Exception:
            ctx.check("route-text-rejects-or-preserves", True)
            return
        back = binary.deserialize(raw)
        same = (back.app_id == sub.app_id and [str(i) for i in back.instructions] == [str(i) for i in sub.instructions])
        ctx.check("route-text-rejects-or-preserves", same)
    R.add("route[text-assembler]", kind="bounded", bounded_only=True, samples=120,
          note="bounded: 5 operand kinds x 4 magnitudes x both signs, concrete, through parse_text_subroutine -> bytes -> deserialize")(route_text)

    def route_sdk(ctx):
        from netqasm.sdk.connection import DebugConnection
        from netqasm.sdk.qubit import Qubit
        from netqasm.sdk.shared_memory import SharedMemoryManager
        n = ctx.choice("n", [256, 300, 511, 2 ** 20, -1])
        d = ctx.choice("d", [0, 1, 8, 255, 256, 1000])
        ax = ctx.choice("axis", ["rot_X", "rot_Y", "rot_Z"])
        SharedMemoryManager.reset_memories()
        DebugConnection.node_ids = {"Alice": 0}
        try:
            with DebugConnection("Alice") as conn:
                q = Qubit(conn)
                getattr(q, ax)(n=n, d=d)
                sub = conn._builder.subrt_pop_pending_subroutine()
                sub = conn._builder.subrt_compile_subroutine(sub)
                raw = bytes(sub)
                conn._builder._pending_commands = []
                for qq in list(conn._builder._mem_mgr.get_active_qubits()):
                    qq._active = False
        except Exception:
            ctx.check("route-sdk-rejects-or-preserves", True)
            return
        back = binary.deserialize(raw)
        rots = [i for i in back.instructions if i.mnemonic.startswith("rot_")]
        ctx.check("route-sdk-rejects-or-preserves", len(rots) == 1 and rots[0].imm0.value == n and rots[0].imm1.value == d)
    R.add("route[sdk-rotation]", kind="bounded", bounded_only=True, samples=90,
          note="bounded: rot_X/Y/Z with n in {256,300,511,2**20,-1} x d in {0,1,8,255,256,1000}, concrete, through the SDK builder")(route_sdk)

    def canary(ctx):
        x = mk_instr(ctx, core.SetInstruction, ["reg", "int32"], in_range=False)
        out = ctx.attempt(x.serialize)
        ctx.check("never-rejects", out[0] == "ret")
    R.canary("must-reject-something", kind="lia", samples=60)(canary)
    return R
