"""Shared scaffolding for the executor properties (C04, C13, C12, C11): a real ``Executor`` whose
state is an arbitrary (symbolic) pre-state, the abstract view of that state, a spec state built
from copies of the same symbolic containers, and extensional equality of views."""
from __future__ import annotations

import random

import z3

from netqasm.backend.executor import Executor
from netqasm.backend.network_stack import BaseNetworkStack
from netqasm.lang.encoding import RegisterName
from netqasm.lang.subroutine import Subroutine
from netqasm.sdk import shared_memory as SM
from netqasm.sdk.shared_memory import SharedMemoryManager
from pyvc import models as M
from pyvc.values import SInt, lift_int, mk_bool, mk_int
from specs import isa


class Stack(BaseNetworkStack):
    _pyvc_ghost = True          # environment stub: accepts symbolic arguments

    def __init__(self):
        self.requests = []

    def put(self, request):
        self.requests.append(request)

    def setup_epr_socket(self, epr_socket_id, remote_node_id, remote_epr_socket_id, timeout=1.0):
        return None

    def get_purpose_id(self, remote_node_id, epr_socket_id):
        return epr_socket_id


class Ex(Executor):
    """the base executor with the abstract members a simulator must supply"""
    node_id = 0

    def __init__(self, *a, **k):
        super().__init__(*a, **k)
        self.events = []
        self.outcome = 0
        self.angle_checks = []

    def _wait_to_handle_epr_responses(self):
        return None


def hook_stubs(ex):
    """contracts of the overridable processor hooks: record the event, do not touch executor state"""
    E = Executor

    def single(it, a, k):
        _, instr, sid, addr = a[:4]
        ex.events.append(("single", instr.mnemonic, addr))

    def two(it, a, k):
        _, instr, sid, a1, a2 = a[:5]
        ex.events.append(("two", instr.mnemonic, a1, a2))

    def _angle_ok(it, instr, angle):
        import numpy as np
        from pyvc.values import SReal, lift_real
        want = M.real_binop(it, __import__("ast").Div(), M.real_binop(it, __import__("ast").Mult(), instr.imm0.value, float(np.pi)),
                            M.pow2(it, instr.imm1.value))
        ex.angle_checks.append(M.equal(it, angle, want))

    def rot(it, a, k):
        instr, addr = a[1], a[3]
        _angle_ok(it, instr, k.get("angle", a[4] if len(a) > 4 else None))
        ex.events.append(("rot", instr.mnemonic, addr, instr.imm0.value, instr.imm1.value))

    def crot(it, a, k):
        instr, a1, a2 = a[1], a[3], a[4]
        _angle_ok(it, instr, k.get("angle", a[5] if len(a) > 5 else None))
        ex.events.append(("crot", instr.mnemonic, a1, a2, instr.imm0.value, instr.imm1.value))

    def meas(it, a, k):
        q = k.get("q_address", a[2] if len(a) > 2 else None)
        ex.events.append(("meas", q))
        if getattr(ex, "outcomes", None):
            return ex.outcomes.pop(0)
        return ex.outcome

    def clear(it, a, k):
        ex.events.append(("clear", a[1]))
        return None

    def reserve(it, a, k):
        return None
    return {E._do_single_qubit_instr: single, E._do_two_qubit_instr: two, E._do_single_qubit_rotation: rot,
            E._do_controlled_qubit_rotation: crot, E._do_meas: meas, E._clear_phys_qubit_in_memory: clear,
            E._reserve_physical_qubit: reserve}


class NatEx(Ex):
    """native twin: same hooks implemented as overriding methods"""

    def _do_single_qubit_instr(self, instr, subroutine_id, address):
        self.events.append(("single", instr.mnemonic, address))

    def _do_two_qubit_instr(self, instr, subroutine_id, address1, address2):
        self.events.append(("two", instr.mnemonic, address1, address2))

    def _do_single_qubit_rotation(self, instr, subroutine_id, address, angle):
        import numpy as np
        self.angle_checks.append(abs(angle - instr.imm0.value * np.pi / 2 ** instr.imm1.value) <= 1e-12 * max(1.0, abs(angle)))
        self.events.append(("rot", instr.mnemonic, address, instr.imm0.value, instr.imm1.value))

    def _do_controlled_qubit_rotation(self, instr, subroutine_id, address1, address2, angle):
        import numpy as np
        self.angle_checks.append(abs(angle - instr.imm0.value * np.pi / 2 ** instr.imm1.value) <= 1e-12 * max(1.0, abs(angle)))
        self.events.append(("crot", instr.mnemonic, address1, address2, instr.imm0.value, instr.imm1.value))

    def _do_meas(self, subroutine_id, q_address):
        self.events.append(("meas", q_address))
        return self.outcome

    def _clear_phys_qubit_in_memory(self, physical_address):
        self.events.append(("clear", physical_address))
        return None

    def _reserve_physical_qubit(self, physical_address):
        return None


BANKS = list(RegisterName)


class BankDict:
    """ghost stand-in for ``{bank: RegisterGroup}``: all four banks live in ONE symbolic map keyed by
    16*bank + index, so a register with a symbolic bank needs no case split.  ``wrap=True`` hands out real
    ``RegisterGroup`` objects (whose real methods are then interpreted) over a window of that map."""
    _pyvc_ghost = True

    def __init__(self, base, wrap):
        self.base = base
        self.wrap = wrap

    def __getitem__(self, name):
        from pyvc.values import SEnum
        off = (name.t if isinstance(name, SEnum) else z3.IntVal(name.value)) * 16
        v = M.SymMapView(self.base, off)
        if not self.wrap:
            return v
        g = object.__new__(SM.RegisterGroup)
        g._size = 16
        g._register = v
        return g

    def copy(self, wrap):
        b = self.base
        return BankDict(M.SymMap(b.name + "'", None, b.present, b.isnone, b.val), wrap)


def new_executor(ctx, apps=(0, 1), um_sizes=None):
    """fresh executor with the given applications registered (natively: configuration)"""
    SharedMemoryManager.reset_memories()
    ex = (Ex if ctx.symbolic else NatEx)(name="node")
    ex.network_stack = Stack()
    for a in apps:
        ex.init_new_application(a, (um_sizes or {}).get(a, 2))
    return ex


def symbolic_app_state(ctx, ex, app, tag, n_arrays=2):
    """replace the classical state of application ``app`` by an arbitrary one.
    Symbolic mode: symbolic maps / lists (array addresses and lengths are named inputs so that a counter-model
    can be replayed).  Native mode: the same named inputs, concrete dicts / lists; registers and entries not
    pinned by ``pin_register`` / ``pin_entry`` are undefined (replay) or noise (sampling)."""
    from pyvc.harness import Skip
    if ctx.symbolic:
        it = ctx.it
        ex._registers[app] = BankDict(M.SymMap(f"{tag}R"), True)
        ex._shared_memories[app]._registers = BankDict(M.SymMap(f"{tag}SR"), True)
        ents = []
        for j in range(n_arrays):
            a = ctx.int(f"{tag}addr{j}", -2 ** 31, 2 ** 31 - 1)
            for (pa, _) in ents:
                ctx.assume(ctx.not_(ctx.eq(a, pa)))
            ln = ctx.int(f"{tag}len{j}", 0, None)
            ctx.prefer(ctx.le(ln, 50))
            L = M.SymList(f"{tag}arr{j}", length=ln.t)
            for k in range(PIN_ARR):
                v = ctx.optint(f"{tag}arr{j}_{k}")
                it.pc.append(z3.Implies(ln.t > k, z3.And(z3.Select(L.isnone, k) == v.isnone,
                                                          z3.Implies(z3.Not(v.isnone), z3.Select(L.val, k) == v.val))))
            ents.append((a, L))
        ex._app_arrays[app]._arrays = M.SymKeyDict(f"{tag}A", ents)
        sa = ctx.int(f"{tag}saddr0", -2 ** 31, 2 ** 31 - 1)
        sl = ctx.int(f"{tag}slen0", 0, None)
        SL = M.SymList(f"{tag}sarr0", length=sl.t)
        for k in range(PIN_ARR):
            v = ctx.optint(f"{tag}sarr0_{k}")       # named, so that a counter-model determines the host-visible array too
            it.pc.append(z3.Implies(sl.t > k, z3.And(z3.Select(SL.isnone, k) == v.isnone,
                                                     z3.Implies(z3.Not(v.isnone), z3.Select(SL.val, k) == v.val))))
        ex._shared_memories[app]._arrays._arrays = M.SymKeyDict(f"{tag}SA", [(sa, SL)])
    else:
        r = ctx.rng

        def rv():
            return r.choice([0, 1, 2, 3, 5, 7, -1, 16, 255, 2 ** 31 - 1, -2 ** 31, r.randint(-50, 50)])
        for b in BANKS:
            ex._registers[app][b]._register = {} if r is None else {i: (None if r.random() < 0.25 else rv()) for i in range(16) if r.random() < 0.5}
            ex._shared_memories[app]._registers[b]._register = {} if r is None else {i: rv() for i in range(16) if r.random() < 0.3}
        arrs = {}
        for j in range(n_arrays):
            a = ctx.int(f"{tag}addr{j}", -4, 6) if r is not None else ctx.int(f"{tag}addr{j}", -2 ** 31, 2 ** 31 - 1)
            if a in arrs:
                raise Skip()
            ln = ctx.int(f"{tag}len{j}", 0, 5) if r is not None else ctx.int(f"{tag}len{j}", 0, None)
            if ln > 100000:
                raise Skip()
            arrs[a] = [None if (r is None or r.random() < 0.3) else rv() for _ in range(ln)]
            for k in range(PIN_ARR):
                v = ctx.optint(f"{tag}arr{j}_{k}", -40, 40) if r is not None else ctx.optint(f"{tag}arr{j}_{k}")
                if k < ln:
                    arrs[a][k] = v
        ex._app_arrays[app]._arrays = arrs
        sa = ctx.int(f"{tag}saddr0", -4, 6) if r is not None else ctx.int(f"{tag}saddr0", -2 ** 31, 2 ** 31 - 1)
        sl = ctx.int(f"{tag}slen0", 0, 3) if r is not None else ctx.int(f"{tag}slen0", 0, None)
        if sl > 100000:
            raise Skip()
        sarr = [None if r is None else rv() for _ in range(sl)]
        for k in range(PIN_ARR):
            v = ctx.optint(f"{tag}sarr0_{k}", -40, 40) if r is not None else ctx.optint(f"{tag}sarr0_{k}")
            if k < sl:
                sarr[k] = v
        ex._shared_memories[app]._arrays._arrays = {sa: sarr}


def pin_register(ctx, ex, app, reg, name, shared=False, big_ok=False):
    """name the pre-state value of register ``reg`` as an input (so counter-models can be replayed); ``big_ok``: the instruction
    cannot use the value as a size, so a counter-model with a huge value is replayed too (e.g. arithmetic past 32 bits)"""
    grp = (ex._shared_memories[app]._registers if shared else ex._registers[app])
    if ctx.symbolic:
        v = ctx.optint(name)
        m = grp.base
        from pyvc.values import SEnum
        idx = (reg.name.t if isinstance(reg.name, SEnum) else z3.IntVal(reg.name.value)) * 16 + lift_int(reg.index)
        undefined = z3.Or(z3.Not(z3.Select(m.present, idx)), z3.Select(m.isnone, idx))
        ctx.it.pc.append(z3.And(undefined == v.isnone, z3.Implies(z3.Not(v.isnone), z3.Select(m.val, idx) == v.val)))
        return v
    v = ctx.optint(name, -40, 40) if ctx.rng is not None else ctx.optint(name)
    if isinstance(v, int) and abs(v) > 10 ** 7 and not big_ok:
        from pyvc.harness import Skip
        raise Skip()          # replaying such a value natively could allocate gigabytes (array length)
    grp[reg.name]._register[reg.index] = v
    return v


def pin_entry(ctx, ex, app, j, idx, name):
    """name the pre-state value of entry ``idx`` of the j-th array of the table (if idx is inside it)"""
    table = ex._app_arrays[app]._arrays
    if ctx.symbolic:
        L = table.entries[j][1]
        v = ctx.optint(name)
        it_ = lift_int(idx)
        ctx.it.pc.append(z3.Implies(z3.And(it_ >= 0, it_ < L.length),
                                   z3.And(z3.Select(L.isnone, it_) == v.isnone, z3.Implies(z3.Not(v.isnone), z3.Select(L.val, it_) == v.val))))
        return v
    v = ctx.optint(name, -2 ** 33, 2 ** 33) if ctx.rng is not None else ctx.optint(name)
    arr = list(table.values())[j]
    if isinstance(idx, int) and 0 <= idx < len(arr):
        arr[idx] = v
    return v


def symbolic_qubit_state(ctx, ex, apps, tag="q"):
    """arbitrary unit modules and in-use set satisfying the representation invariant of C13:
    injective virtual->physical map, USED == image"""
    if ctx.symbolic:
        it = ctx.it
        used = M.SymIntSet(f"{tag}USED")
        ex._used_physical_qubit_addresses = used
        ums = {}
        for a in apps:
            ln = ctx.int(f"{tag}um{a}_len", 0, None)
            ctx.prefer(ctx.le(ln, PIN_UM))
            L = M.SymList(f"{tag}UM{a}", length=ln.t)
            for k in range(PIN_UM):
                v = ctx.optint(f"{tag}um{a}_{k}")
                it.pc.append(z3.Implies(ln.t > k, z3.And(z3.Select(L.isnone, k) == v.isnone,
                                                          z3.Implies(z3.Not(v.isnone), z3.Select(L.val, k) == v.val))))
            ex._qubit_unit_modules[a] = L
            ums[a] = L
        # invariant: every mapped entry is >= 0, in USED; distinct slots map to distinct physical ids; USED subset of image
        i, j, p = z3.Ints(f"{tag}!i {tag}!j {tag}!p")
        inv = []
        for a in apps:
            La = ums[a]
            inv.append(z3.ForAll([i], z3.Implies(z3.And(i >= 0, i < La.length, z3.Not(z3.Select(La.isnone, i))),
                                                 z3.And(z3.Select(La.val, i) >= 0, z3.Select(used.arr, z3.Select(La.val, i))))))
            for b in apps:
                Lb = ums[b]
                same = a == b
                inv.append(z3.ForAll([i, j], z3.Implies(
                    z3.And(i >= 0, i < La.length, j >= 0, j < Lb.length, z3.Not(z3.Select(La.isnone, i)), z3.Not(z3.Select(Lb.isnone, j)),
                           (i != j) if same else z3.BoolVal(True)),
                    z3.Select(La.val, i) != z3.Select(Lb.val, j))))
        # USED subset of image: witness functions
        wa = z3.Function(f"{tag}!owner", z3.IntSort(), z3.IntSort())
        wi = z3.Function(f"{tag}!slot", z3.IntSort(), z3.IntSort())
        alts = []
        for k, a in enumerate(apps):
            La = ums[a]
            alts.append(z3.And(wa(p) == k, wi(p) >= 0, wi(p) < La.length, z3.Not(z3.Select(La.isnone, wi(p))), z3.Select(La.val, wi(p)) == p))
        inv.append(z3.ForAll([p], z3.Implies(z3.Select(used.arr, p), z3.And(p >= 0, z3.Or(alts)))))
        it.notes["owner_fns"] = (wa, wi)
        for f in inv:
            it.assume.append(f)
        it._solver = None
        return inv
    else:
        from pyvc.harness import Skip
        r = ctx.rng
        used = set()
        for a in apps:
            ln = ctx.int(f"{tag}um{a}_len", 0, 4) if r is not None else ctx.int(f"{tag}um{a}_len", 0, None)
            if ln > PIN_UM:
                raise Skip()
            um = []
            for k in range(PIN_UM):
                v = ctx.optint(f"{tag}um{a}_{k}", 0, 9) if r is not None else ctx.optint(f"{tag}um{a}_{k}")
                if k < ln:
                    if v is not None and (v in used or v < 0):
                        raise Skip()          # outside the representation invariant (precondition)
                    if v is not None:
                        used.add(v)
                    um.append(v)
            ex._qubit_unit_modules[a] = um
        ex._used_physical_qubit_addresses = used
        return None


PIN_UM = 6
PIN_ARR = 3


# ------------------------------------------------------------------ copies for the spec
def _copy_map(m):
    if isinstance(m, M.SymMap):
        return M.SymMap(m.name + "'", m.dom, m.present, m.isnone, m.val)
    return dict(m)


def _copy_list(l):
    if isinstance(l, M.SymList):
        return M.SymList(l.name + "'", l.length, l.isnone, l.val)
    return list(l)


def _copy_keydict(d, memo):
    if isinstance(d, M.SymKeyDict):
        return M.SymKeyDict(d.name + "'", [(k, memo.setdefault(id(v), _copy_list(v))) for k, v in d.entries])
    return {k: memo.setdefault(id(v), _copy_list(v)) for k, v in d.items()}


def _copy_set(s):
    if isinstance(s, M.SymIntSet):
        return M.SymIntSet(s.name + "'", s.arr)
    return set(s)


def spec_state(ex, app, sid):
    """abstract view of (ex, app, sid) as an independent copy (same initial contents), for the oracle"""
    memo = {}
    if isinstance(ex._registers[app], BankDict):
        R = ex._registers[app].copy(False)
        SR = ex._shared_memories[app]._registers.copy(False)
    else:
        R = {b: _copy_map(ex._registers[app][b]._register) for b in BANKS}
        SR = {b: _copy_map(ex._shared_memories[app]._registers[b]._register) for b in BANKS}
    A = _copy_keydict(ex._app_arrays[app]._arrays, memo)
    SA = _copy_keydict(ex._shared_memories[app]._arrays._arrays, memo)
    UM = _copy_list(ex._qubit_unit_modules[app])
    USED = _copy_set(ex._used_physical_qubit_addresses)
    return isa.State(R, A, ex._program_counters[sid], SR, SA, UM, USED)


def view(ex, app, sid):
    """abstract view of the executor's current state (no copy)"""
    if isinstance(ex._registers[app], BankDict):
        R, SR = ex._registers[app], ex._shared_memories[app]._registers
    else:
        R = {b: ex._registers[app][b]._register for b in BANKS}
        SR = {b: ex._shared_memories[app]._registers[b]._register for b in BANKS}
    s = isa.State(R, ex._app_arrays[app]._arrays,
                  ex._program_counters[sid], SR,
                  ex._shared_memories[app]._arrays._arrays, ex._qubit_unit_modules[app], ex._used_physical_qubit_addresses)
    s.events = list(ex.events)
    s.angle_checks = list(getattr(ex, "angle_checks", []))
    return s


# ------------------------------------------------------------------ extensional equality
_fresh = [0]


def _fv(name):
    _fresh[0] += 1
    return z3.Int(f"{name}!{_fresh[0]}")


def map_eq(ctx, a, b):
    if isinstance(a, M.SymMap) and isinstance(b, M.SymMap):
        k = _fv("k")
        pa, pb = z3.Select(a.present, k), z3.Select(b.present, k)
        na = z3.Or(z3.Not(pa), z3.Select(a.isnone, k))     # absent == undefined
        nb = z3.Or(z3.Not(pb), z3.Select(b.isnone, k))
        return mk_bool(z3.And(na == nb, z3.Implies(z3.Not(na), z3.Select(a.val, k) == z3.Select(b.val, k))))
    if isinstance(a, dict) and isinstance(b, dict):
        return all(a.get(k) == b.get(k) for k in set(a) | set(b))
    return False


def list_eq(ctx, a, b):
    if isinstance(a, M.SymList) and isinstance(b, M.SymList):
        i = _fv("i")
        return mk_bool(z3.And(a.length == b.length, z3.Implies(
            z3.And(i >= 0, i < a.length),
            z3.And(z3.Select(a.isnone, i) == z3.Select(b.isnone, i),
                   z3.Implies(z3.Not(z3.Select(a.isnone, i)), z3.Select(a.val, i) == z3.Select(b.val, i))))))
    if isinstance(a, list) and isinstance(b, list):
        if len(a) != len(b):
            return False
        return ctx.and_(*[ctx.eq(x, y) for x, y in zip(a, b)]) if a else True
    if isinstance(a, (list, M.SymList)) and isinstance(b, (list, M.SymList)):
        # one side concrete (e.g. [] from a negative repeat)
        la = a.length if isinstance(a, M.SymList) else z3.IntVal(len(a))
        lb = b.length if isinstance(b, M.SymList) else z3.IntVal(len(b))
        if (isinstance(a, list) and len(a) == 0) or (isinstance(b, list) and len(b) == 0):
            return mk_bool(la == lb)
        return False
    return False


def keydict_eq(ctx, a, b):
    if isinstance(a, M.SymKeyDict) and isinstance(b, M.SymKeyDict):
        if len(a.entries) != len(b.entries):
            return False
        return ctx.and_(*[ctx.and_(ctx.eq(ka, kb), list_eq(ctx, va, vb)) for (ka, va), (kb, vb) in zip(a.entries, b.entries)]) if a.entries else True
    if isinstance(a, dict) and isinstance(b, dict):
        return set(a) == set(b) and all(a[k] == b[k] for k in a)
    return False


def set_eq(ctx, a, b):
    if isinstance(a, M.SymIntSet) and isinstance(b, M.SymIntSet):
        k = _fv("p")
        return mk_bool(z3.Select(a.arr, k) == z3.Select(b.arr, k))
    return a == b


def events_eq(ctx, a, b):
    if len(a) != len(b):
        return False
    out = True
    for x, y in zip(a, b):
        if len(x) != len(y):
            return False
        out = ctx.and_(out, *[ctx.eq(p, q) for p, q in zip(x, y)])
    return out


def check_views_equal(ctx, real, spec, prefix=""):
    if isinstance(real.R, BankDict):
        ctx.check(f"{prefix}registers", map_eq(ctx, real.R.base, spec.R.base))
        ctx.check(f"{prefix}shared-registers", map_eq(ctx, real.SR.base, spec.SR.base))
    else:
        for b in BANKS:
            ctx.check(f"{prefix}registers[{b.name}]", map_eq(ctx, real.R[b], spec.R[b]))
            ctx.check(f"{prefix}shared-registers[{b.name}]", map_eq(ctx, real.SR[b], spec.SR[b]))
    ctx.check(f"{prefix}arrays", keydict_eq(ctx, real.A, spec.A))
    ctx.check(f"{prefix}shared-arrays", keydict_eq(ctx, real.SA, spec.SA))
    ctx.check(f"{prefix}program-counter", ctx.eq(real.pc, spec.pc))
    ctx.check(f"{prefix}unit-module", list_eq(ctx, real.UM, spec.UM))
    ctx.check(f"{prefix}physical-in-use", set_eq(ctx, real.USED, spec.USED))
    ctx.check(f"{prefix}processor-events", events_eq(ctx, real.events, spec.events))
    for c in getattr(real, "angle_checks", []):
        ctx.check(f"{prefix}hook-receives-angle-n*pi/2**d", c)


class Diverged(Exception):
    """the program under execution did not finish within the step budget (treated as 'does not terminate')"""


def run_bounded(ctx, ex, sub, steps=150_000, seconds=10):
    """execute a whole subroutine on the executor with a budget: interpreter steps when symbolic, wall-clock seconds natively.
    Returns None (finished), an exception raised by the program, or a Diverged instance."""
    from pyvc.harness import Raised
    from pyvc.values import Unsupported
    if ctx.symbolic:
        it = ctx.it
        old = it.max_steps
        it.max_steps = min(old, it.steps + steps)
        try:
            gen = ctx.call(ex.execute_subroutine, sub)
            ctx.call(list, gen)
        except Raised as r:
            return r.e
        except Unsupported as u:
            if "step budget exhausted" in str(u) and it.steps >= it.max_steps and it.max_steps < old:
                return Diverged(f"no end within {steps} interpreter steps")
            raise
        finally:
            it.max_steps = old
        return None
    import signal

    def on_alarm(signum, frame):
        raise Diverged(f"no end within {seconds} s")
    prev = signal.signal(signal.SIGALRM, on_alarm)
    signal.alarm(seconds)
    try:
        list(ex.execute_subroutine(sub))
    except Diverged as d:
        return d
    except Exception as e:
        return e
    finally:
        signal.alarm(0)
        signal.signal(signal.SIGALRM, prev)
    return None
