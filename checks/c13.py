"""C13 -- qubit memory is safe and applications are isolated on the controller.

Representation invariant Inv over the executor state (all applications):
   (i)   two mapped slots (of the same or of different applications) never hold the same physical qubit,
   (ii)  the in-use set is exactly the set of mapped physical qubits,
   (iii) the per-application tables (_registers, _app_arrays, _shared_memories, _qubit_unit_modules) have
         the same key set, and the shared-memory manager has a live entry exactly for the registered apps.

Every public operation is proved to preserve Inv from an ARBITRARY state satisfying it (so Inv holds after
every finite history), with its functional clause:  qalloc / qfree (through the real instruction handlers),
keep-response delivery (_handle_epr_ok_k_response: success, deferral, fault), stop_application (all qubits and
memories of the application released, the id can be registered again), init_new_application, fresh
subroutine ids (a live subroutine's id is never handed out again -> no cross-application writes).
Isolation of classical writes is the frame clause of C04 (every handler leaves the other application's
registers, arrays, shared memory and unit module unchanged); it is re-checked here for the qubit operations.
"""
from __future__ import annotations

import z3

from netqasm.backend.executor import EprCmdData, Executor
from netqasm.lang.instr import core
from netqasm.lang.subroutine import Subroutine
from netqasm.qlink_compat import BellState, LinkLayerOKTypeK
from netqasm.sdk.shared_memory import SharedMemoryManager
from pyvc import interp as I
from pyvc import models as M
from pyvc.harness import Raised, Registry
from pyvc.values import SInt, lift_int, mk_bool, mk_int
from specs import isa

from .c04 import SID, SID_OTHER, _attempt_cmd, _install, _setup
from .codec_common import mk_instr
from .exec_common import (BANKS, check_views_equal, list_eq, new_executor, pin_register, set_eq, spec_state,
                          symbolic_app_state, view)

LEVEL = "proof"
TECHNIQUE = ("contract-based deductive verification: representation invariant (injective virtual->physical map, in-use set == image, table key sets "
             "coincide) proved inductive for every public operation from an arbitrary symbolic state, z3 (arrays, LIA, quantified invariant)")


def _inv_lists(ctx, ums, used):
    """Inv (i)+(ii) for unit modules given as CONCRETE-length lists of Optional ints and a symbolic/concrete in-use set:
    returns (formula-or-bool) using a fresh universally quantified physical id for the 'subset of image' direction"""
    slots = [(a, k, v) for a, um in ums.items() for k, v in enumerate(um)]
    parts = []
    for idx, (a, k, v) in enumerate(slots):
        parts.append(ctx.or_(ctx.is_none(v), ctx.and_(_ge0(ctx, v), _in(ctx, used, v))))
        for (a2, k2, v2) in slots[idx + 1:]:
            parts.append(ctx.or_(ctx.is_none(v), ctx.is_none(v2), ctx.not_(_eqv(ctx, v, v2))))
    if isinstance(used, M.SymIntSet):
        p = z3.Int("p!img")
        img = [ctx.and_(ctx.not_(ctx.is_none(v)), mk_bool(_val(v) == p)) for (_, _, v) in slots]
        parts.append(ctx.or_(mk_bool(z3.Not(z3.Select(used.arr, p))), *img) if img else mk_bool(z3.Not(z3.Select(used.arr, p))))
    else:
        image = {v for (_, _, v) in slots if v is not None}
        parts.append(set(used) <= image)
    return ctx.and_(*parts)


def _val(v):
    if isinstance(v, M.OptInt):
        return v.val
    return lift_int(v)


def _ge0(ctx, v):
    if isinstance(v, M.OptInt):
        return mk_bool(v.val >= 0)
    if isinstance(v, SInt):
        return mk_bool(v.t >= 0)
    return v is None or v >= 0


def _eqv(ctx, a, b):
    if isinstance(a, (M.OptInt, SInt)) or isinstance(b, (M.OptInt, SInt)):
        return mk_bool(_val(a) == _val(b))
    return a == b


def _in(ctx, used, v):
    if isinstance(used, M.SymIntSet):
        return mk_bool(z3.Select(used.arr, _val(v)))
    return v in used


def _mk_ums(ctx, sizes, tag="u"):
    """concrete-length unit modules with arbitrary (symbolic) Optional-int entries"""
    ums = {}
    for a, n in sizes.items():
        ums[a] = [ctx.optint(f"{tag}{a}_{k}", 0, None) for k in range(n)]
    return ums


def _fresh_used(ctx, ums, name="USED"):
    if ctx.symbolic:
        return M.SymIntSet(name)
    return {v for um in ums.values() for v in um if v is not None}


def build():
    R = Registry("C13")
    R.explanation = ("inductive representation invariant of the qubit memory + registration tables, proved preserved by qalloc, qfree, keep-response "
                     "delivery, stop_application, init_new_application, subroutine-id allocation, each from an arbitrary state satisfying it")
    R.trusted = [
        "pyvc interpreter and container models; z3 arrays/LIA/quantifiers",
        "environment assumption: the physical id delivered with a keep-response is >= 0 and not in use (the network stack chooses it)",
        "processor hooks replaced by their contract (record the event, touch nothing)",
    ]
    R.assumptions = [
        "negative virtual addresses are outside the claimed domain (python indexes from the end)",
        "stop_application / init_new_application are exercised on unit modules of concrete size 0..4 with symbolic contents (the statement's 1..4); "
        "qalloc/qfree/keep-response on unit modules of symbolic size",
        "classical isolation is C04's frame clause",
    ]
    R.dropped = ["docstrings, type annotations, logging calls"]

    # ------------------------------------------------------------- qalloc / qfree keep Inv (symbolic-size modules)
    def mk_alloc(cls):
        def f(ctx):
            ex = _setup(ctx)
            _install(ctx, ex, False)
            instr = mk_instr(ctx, cls, ["reg"])
            v = pin_register(ctx, ex, 0, instr.reg, "val_reg")
            ctx.assume(ctx.or_(ctx.is_none(v), _ge0(ctx, v)))
            other_before = spec_state(ex, 1, SID_OTHER)
            before = spec_state(ex, 0, SID)
            out = _attempt_cmd(ctx, ex, instr)
            um0, um1, used = ex._qubit_unit_modules[0], ex._qubit_unit_modules[1], ex._used_physical_qubit_addresses
            if ctx.symbolic:
                i, j, p = z3.Ints("i!c j!c p!c")
                U = used.arr

                def mapped(L, k):
                    return z3.And(k >= 0, k < L.length, z3.Not(z3.Select(L.isnone, k)))
                for (La, Lb, same, nm) in ((um0, um0, True, "same-app"), (um0, um1, False, "cross-app")):
                    ctx.check(f"inv/injective[{nm}]", mk_bool(z3.Implies(
                        z3.And(mapped(La, i), mapped(Lb, j), (i != j) if same else z3.BoolVal(True)),
                        z3.Select(La.val, i) != z3.Select(Lb.val, j))))
                ctx.check("inv/mapped-implies-in-use", mk_bool(z3.Implies(mapped(um0, i), z3.Select(U, z3.Select(um0.val, i)))))
                ctx.check("inv/other-app-mapped-implies-in-use", mk_bool(z3.Implies(mapped(um1, i), z3.Select(U, z3.Select(um1.val, i)))))
                # in-use => mapped somewhere: witness = the slot just written, else the old owner (unchanged slots)
                k0 = z3.Int("k0!c")
                k1 = z3.Int("k1!c")
                owner = ctx.it.notes.get("owner_fns")
                wa, wi = owner
                new_slot = v.val if isinstance(v, M.OptInt) else z3.IntVal(0)
                ctx.check("inv/in-use-implies-mapped", mk_bool(z3.Implies(z3.Select(U, p), z3.Or(
                    z3.And(mapped(um0, new_slot), z3.Select(um0.val, new_slot) == p),
                    z3.And(wa(p) == 0, mapped(um0, wi(p)), z3.Select(um0.val, wi(p)) == p),
                    z3.And(wa(p) == 1, mapped(um1, wi(p)), z3.Select(um1.val, wi(p)) == p)))))
            else:
                slots = [x for x in um0 if x is not None] + [x for x in um1 if x is not None]
                ctx.check("inv/injective[same-app]", len(set(slots)) == len(slots))
                ctx.check("inv/injective[cross-app]", len(set(slots)) == len(slots))
                ctx.check("inv/mapped-implies-in-use", all(x in used for x in slots))
                ctx.check("inv/other-app-mapped-implies-in-use", True)
                ctx.check("inv/in-use-implies-mapped", set(used) <= set(slots))
            ov = view(ex, 1, SID_OTHER)
            ov.events = []
            ctx.check("isolation/other-app-unit-module-unchanged", list_eq(ctx, ov.UM, other_before.UM))
            if out[0] == "exc":
                ctx.check("fault/unit-module-unchanged", list_eq(ctx, um0, before.UM))
                ctx.check("fault/in-use-unchanged", set_eq(ctx, used, before.USED))
        return f
    R.add("inv[qalloc]", kind="lia", samples=120)(mk_alloc(core.QAllocInstruction))
    R.add("inv[qfree]", kind="lia", samples=120)(mk_alloc(core.QFreeInstruction))

    # ------------------------------------------------------------- keep-response delivery
    def keep_response(ctx):
        ex = _setup(ctx)
        _install(ctx, ex, False)
        used = ex._used_physical_qubit_addresses
        um0 = ex._qubit_unit_modules[0]
        # the request: qubit ids in array 0 of the table, pair index symbolic
        pair = ctx.int("pair_index", 0, None)
        qaddr = ex._app_arrays[0]._arrays.entries[0][0] if ctx.symbolic else list(ex._app_arrays[0]._arrays)[0]
        from .exec_common import pin_entry
        vq = pin_entry(ctx, ex, 0, 0, pair, "virtual_id_at_pair")
        ctx.assume(ctx.or_(ctx.is_none(vq), _ge0(ctx, vq)))
        phys = ctx.int("delivered_physical_id", 0, None)
        ctx.assume(ctx.not_(_in(ctx, used, phys)))
        data = EprCmdData(subroutine_id=SID, ent_results_array_address=0, q_array_address=qaddr, request=None, tot_pairs=3, pairs_left=3)
        resp = LinkLayerOKTypeK(logical_qubit_id=phys, purpose_id=0, remote_node_id=1, bell_state=BellState.PHI_PLUS)
        before = spec_state(ex, 0, SID)
        other_before = spec_state(ex, 1, SID_OTHER)
        out = ctx.attempt(ex._handle_epr_ok_k_response, data, resp, pair)
        if out[0] == "exc":
            ctx.cover("fault")
            ctx.check("fault/unit-module-unchanged", list_eq(ctx, um0, before.UM))
            ctx.check("fault/in-use-set-unchanged (no leaked physical qubit)", set_eq(ctx, used, before.USED))
        elif ctx.truth(ctx.eq(out[1], False)):
            ctx.cover("deferred")
            ctx.check("deferred/only-when-virtual-qubit-allocated", True)
            ctx.check("deferred/unit-module-unchanged", list_eq(ctx, um0, before.UM))
            ctx.check("deferred/in-use-set-unchanged", set_eq(ctx, used, before.USED))
        else:
            ctx.cover("delivered")
            ctx.check("delivered/returns-True", ctx.eq(out[1], True))
            exp = before
            # expected: UM[vq] = phys, USED u= {phys}   (spec-level update on the copy)
            ok_pre = ctx.and_(ctx.not_(ctx.is_none(vq)))
            ctx.check("delivered/virtual-id-defined", ok_pre)
            if ctx.symbolic:
                vt = vq.val
                ctx.check("delivered/slot-was-free-and-inside", mk_bool(z3.And(vt >= 0, vt < exp.UM.length, z3.Select(exp.UM.isnone, vt))))
                M.setitem(ctx.it, exp.UM, mk_int(vt), phys)
                M._sis_add(ctx.it, exp.USED, phys)
            else:
                ctx.check("delivered/slot-was-free-and-inside", 0 <= vq < len(exp.UM) and exp.UM[vq] is None)
                if vq is not None and 0 <= vq < len(exp.UM):
                    exp.UM[vq] = phys
                exp.USED.add(phys)
            ctx.check("delivered/maps-that-virtual-qubit-to-the-delivered-physical-qubit", list_eq(ctx, um0, exp.UM))
            ctx.check("delivered/in-use-set-gains-exactly-that-qubit", set_eq(ctx, used, exp.USED))
        ov = view(ex, 1, SID_OTHER)
        ctx.check("isolation/other-app-unit-module-unchanged", list_eq(ctx, ov.UM, other_before.UM))
    R.add("inv[keep-response]", kind="lia", samples=150)(keep_response)

    # ------------------------------------------------------------- stop_application / init_new_application
    def stop_app(ctx):
        n0 = ctx.choice("size0", [0, 1, 2, 3, 4])
        n1 = ctx.choice("size1", [0, 1, 2])
        ex = new_executor(ctx, apps=(0, 1), um_sizes={0: n0, 1: n1})
        ums = _mk_ums(ctx, {0: n0, 1: n1})
        used = _fresh_used(ctx, ums)
        if not ctx.symbolic:
            vals = [v for um in ums.values() for v in um if v is not None]
            ctx.assume(len(set(vals)) == len(vals))
        ex._qubit_unit_modules[0] = list(ums[0])
        ex._qubit_unit_modules[1] = list(ums[1])
        ex._used_physical_qubit_addresses = used
        ctx.assume(_inv_lists(ctx, ums, used))
        _install(ctx, ex, False)
        gen = ctx.call(ex.stop_application, 0)
        ctx.call(list, gen)
        for tbl in ("_registers", "_app_arrays", "_shared_memories", "_qubit_unit_modules"):
            ctx.check(f"stopped-app-removed-from{tbl}", 0 not in getattr(ex, tbl) and 1 in getattr(ex, tbl))
        ctx.check("inv-after-stop (remaining app: injective, in-use == image)", _inv_lists(ctx, {1: ex._qubit_unit_modules[1]}, ex._used_physical_qubit_addresses))
        ctx.check("other-app-unit-module-unchanged", ctx.eq(ex._qubit_unit_modules[1], ums[1]))
        cleared = [e[1] for e in ex.events if e[0] == "clear"]
        ctx.check("every-released-qubit-is-cleared-in-the-processor", len(cleared) == sum(1 for v in ums[0] if not ctx.truth(ctx.is_none(v))))
        ctx.check("shared-memory-manager-entry-released", SharedMemoryManager.get_shared_memory("node", key=0) is None and
                  SharedMemoryManager.get_shared_memory("node", key=1) is not None)
        # the same application id can be registered again on that controller
        n2 = ctx.int("new_size", 0, None) if ctx.symbolic else ctx.int("new_size", 0, 6)
        out = ctx.attempt(ex.init_new_application, 0, n2)
        ctx.check("same-app-id-can-be-registered-again", out[0] == "ret")
        if out[0] == "ret":
            um = ex._qubit_unit_modules[0]
            if isinstance(um, M.SymList):
                k = z3.Int("k!um")
                ctx.check("fresh-unit-module-is-empty-of-requested-size", mk_bool(z3.And(um.length == lift_int(n2), z3.Implies(z3.And(k >= 0, k < um.length), z3.Select(um.isnone, k)))))
            else:
                ctx.check("fresh-unit-module-is-empty-of-requested-size", um == [None] * n2)
            ctx.check("fresh-registers-and-arrays", all(len(ex._registers[0][b]._register) == 0 for b in BANKS) and len(ex._app_arrays[0]._arrays) == 0)
            ctx.check("fresh-shared-memory-registered-with-manager", SharedMemoryManager.get_shared_memory("node", key=0) is ex._shared_memories[0])
            ctx.check("inv-after-re-registration", _inv_lists(ctx, {1: ex._qubit_unit_modules[1]}, ex._used_physical_qubit_addresses))
    R.add("inv[stop_application + re-registration]", kind="lia", samples=150, max_paths=4000)(stop_app)

    def stop_interleaved(ctx):
        """stop_application is a generator that yields once per cleared qubit (base class hook): while it is suspended another
        application keeps running.  Exhaustive over small concrete configurations: application 0 (being stopped) holds up to
        three qubits, application 1 allocates a virtual qubit at every yield; afterwards the representation invariant holds."""
        from specs.hub_sock import clear_yielding
        um0 = list(ctx.choice("um0", [[5], [5, 6], [None, 5], [0, 1, 2], [2, None, 0], [1, 3]]))
        um1 = list(ctx.choice("um1", [[None, None, None, None], [4, None, None, None], [None, 7, None, None]]))
        ex = new_executor(ctx, apps=(0, 1), um_sizes={0: len(um0), 1: len(um1)})
        ex._qubit_unit_modules[0] = list(um0)
        ex._qubit_unit_modules[1] = list(um1)
        ex._used_physical_qubit_addresses = set(v for v in um0 + um1 if v is not None)
        _install(ctx, ex, False)
        ex._subroutines[SID] = Subroutine(app_id=1)
        if ctx.symbolic:
            ctx.it.stubs[Executor._clear_phys_qubit_in_memory] = lambda it_, a, k: it_.call(clear_yielding, [ex.events, a[1]], {})
        else:
            ex._clear_phys_qubit_in_memory = lambda p: clear_yielding(ex.events, p)
        gen = ctx.call(ex.stop_application, 0)
        nxt = [v for v in range(len(um1)) if um1[v] is None]
        k = 0
        while True:
            out = ctx.attempt(next, gen)
            if out[0] == "exc":
                ctx.check("stop_application finishes normally", isinstance(out[1], StopIteration))
                break
            if k < len(nxt):
                a = ctx.attempt(ex._allocate_physical_qubit, SID, nxt[k])       # the other application allocates while the stop is suspended
                ctx.check("the other application can allocate while a stop is in progress", a[0] == "ret")
                k += 1
        um = ex._qubit_unit_modules[1]
        mapped = [v for v in um if v is not None]
        ctx.check("no two virtual qubits share a physical qubit after an interleaved stop", len(set(mapped)) == len(mapped))
        ctx.check("in-use set == mapped set after an interleaved stop", set(ex._used_physical_qubit_addresses) == set(mapped))
        ctx.check("the stopped application is gone", 0 not in ex._qubit_unit_modules)
    R.add("inv[stop_application interleaved with another application's allocations]", kind="lia", samples=40, max_paths=400)(stop_interleaved)

    # ------------------------------------------------------------- short histories, exhaustively (bounded stand-in)
    def histories(ctx, first=None):
        """every sequence of up to L operations (qalloc / qfree by two applications, keep-responses delivering a physical qubit
        that is unused at that moment) on a fresh real executor; the representation invariant is checked after every step.
        State that an implementation keeps beside the unit modules (caches, free lists) is exercised by construction."""
        import itertools
        from netqasm.backend.executor import Executor as _E
        L = 5 if ctx.tier == "thorough" else 4
        ops = [("qalloc", a, v) for a in (0, 1) for v in (0, 1)] + [("qfree", a, v) for a in (0, 1) for v in (0, 1)] + \
              [("keep", a, v, p) for a in (0, 1) for v in (0, 1) for p in (0, 2)] + \
              [("req", a, v) for a in (0, 1) for v in (0, 1)] + [("resp", a, p) for a in (0, 1) for p in (3, 4)] + \
              [("reserve",)] + [("deliver", a, v) for a in (0, 1) for v in (0, 1)] + [("stop", a) for a in (0, 1)]
        # "reserve": the network stack reserves a physical qubit for a pair in flight by calling _get_unused_physical_qubit() (which marks it in use);
        # "deliver": the pair generated on the reserved qubit is delivered to virtual qubit v of application a;  "stop": application a is stopped
        # (its outstanding harness requests are withdrawn) and the same id is registered again
        # "req": application a executes a recv_epr for one pair into virtual qubit v;  "resp": the link layer delivers a keep pair for
        # application a's purpose on a physical qubit that is unused at that moment -- through the REAL _handle_epr_response, i.e. through the
        # list of pending responses (a response may arrive before its request and wait there)
        given = ctx.given.get("history") if getattr(ctx, "given", None) else None
        seqs = [[tuple(int(x) if x.lstrip("-").isdigit() else x for x in o.split(":")) for o in given.split(",")]] if given else ((first,) + rest for rest in itertools.product(ops, repeat=L - 1))
        from netqasm.qlink_compat import ReturnType as _RT

        def run_hist(seq):
            """-> (hard violation or None, index of the first step after which a pending response's physical qubit is also mapped, or None)"""
            ex = new_executor(ctx, apps=(0, 1), um_sizes={0: 2, 1: 2})
            sids = {0: SID, 1: SID_OTHER}
            nreq = {0: 0, 1: 0}
            ex._subroutines[SID] = Subroutine(app_id=0)
            ex._subroutines[SID_OTHER] = Subroutine(app_id=1)
            shared = None
            reserved = None
            for k, op in enumerate(seq):
                um = {a: list(ex._qubit_unit_modules[a]) for a in (0, 1)}
                used = set(ex._used_physical_qubit_addresses)
                try:
                    if op[0] == "reserve":
                        if reserved is not None:
                            continue
                        reserved = ex._get_unused_physical_qubit()
                        if reserved in used or reserved in [r.logical_qubit_id for r in ex._pending_epr_responses]:
                            return (k, f"physical qubit {reserved} was reserved for a pair in flight although it is in use (in use {sorted(used)})"), shared
                        continue
                    elif op[0] == "deliver":
                        if reserved is None:
                            continue
                        data = EprCmdData(subroutine_id=sids[op[1]], ent_results_array_address=0, q_array_address=5, request=None, tot_pairs=1, pairs_left=1)
                        ex._app_arrays[op[1]]._arrays[5] = [op[2]]
                        if ex._handle_epr_ok_k_response(data, LinkLayerOKTypeK(logical_qubit_id=reserved, purpose_id=0, remote_node_id=1, bell_state=BellState.PHI_PLUS), 0):
                            reserved = None
                        else:
                            continue
                    elif op[0] == "stop":
                        a = op[1]
                        ex._epr_recv_requests[(1, a)].clear()
                        list(ex.stop_application(a) or [])
                        ex.init_new_application(a, 2)
                        ex._subroutines[sids[a]] = Subroutine(app_id=a)
                    elif op[0] == "qalloc":
                        ex._allocate_physical_qubit(sids[op[1]], op[2])
                    elif op[0] == "qfree":
                        list(ex._free_physical_qubit(sids[op[1]], op[2]) or [])
                    elif op[0] == "req":
                        a = op[1]
                        nreq[a] += 1
                        qaddr, eaddr = 100 + nreq[a], 200 + nreq[a]
                        ex._app_arrays[a]._arrays[qaddr] = [op[2]]
                        ex._app_arrays[a]._arrays[eaddr] = [None] * 10
                        ex._epr_recv_requests[(1, a)].append(EprCmdData(subroutine_id=sids[a], ent_results_array_address=eaddr, q_array_address=qaddr,
                                                                        request=None, tot_pairs=1, pairs_left=1))
                        ex._handle_pending_epr_responses()
                    elif op[0] == "resp":
                        busy = used | {r.logical_qubit_id for r in ex._pending_epr_responses}
                        if op[2] in busy:
                            continue
                        ex._handle_epr_response(LinkLayerOKTypeK(type=_RT.OK_K, logical_qubit_id=op[2], directionality_flag=1, purpose_id=op[1], remote_node_id=1,
                                                                 bell_state=BellState.PHI_PLUS))
                    else:
                        if op[3] in used or op[3] in {r.logical_qubit_id for r in ex._pending_epr_responses}:
                            continue        # the link layer only delivers qubits that are free at that moment
                        data = EprCmdData(subroutine_id=sids[op[1]], ent_results_array_address=0, q_array_address=5, request=None, tot_pairs=1, pairs_left=1)
                        ex._app_arrays[op[1]]._arrays[5] = [op[2]]
                        ex._handle_epr_ok_k_response(data, LinkLayerOKTypeK(logical_qubit_id=op[3], purpose_id=0, remote_node_id=1, bell_state=BellState.PHI_PLUS), 0)
                except Exception as e:
                    if op[0] == "stop":
                        return (k, f"stopping application {op[1]} and registering the id again failed: {type(e).__name__}: {e}"), shared
                    # a refused operation leaves the qubit bookkeeping as it was
                    if {a: list(ex._qubit_unit_modules.get(a, ())) for a in (0, 1)} != um or set(ex._used_physical_qubit_addresses) != used:
                        return (k, "a refused operation changed the bookkeeping"), shared
                mapped = [p for a in (0, 1) for p in ex._qubit_unit_modules[a] if p is not None]
                if len(set(mapped)) != len(mapped):
                    return (k, f"two virtual qubits share a physical qubit: {ex._qubit_unit_modules}"), shared
                inflight = set() if reserved is None else {reserved}
                if set(mapped) | inflight != set(ex._used_physical_qubit_addresses) or (inflight & set(mapped)):
                    return (k, f"in-use set {sorted(ex._used_physical_qubit_addresses)} != mapped set {sorted(mapped)}" +
                            (f" + qubit {reserved} reserved for a pair in flight" if inflight else "")), shared
                if shared is None and (len(ex._pending_epr_responses) != len({id(r) for r in ex._pending_epr_responses}) or
                                       any(r.logical_qubit_id in mapped for r in ex._pending_epr_responses)):
                    shared = k
            return None, shared

        # A physical qubit that is mapped AND still held by a waiting response (a handled response that was not removed, or the qubit of a waiting
        # pair handed out by qalloc) is not yet a violation of the property; it is reported only with a continuation of the history (frees, allocations
        # and a request, <= 3 steps) after which two virtual qubits share a physical qubit or the in-use set differs from the mapped set.
        cont_ops = [o for o in ops if o[0] in ("qfree", "qalloc", "req")]       # (continuations never reserve: a reservation open at the cut is simply never delivered)
        examined = set()
        n = 0
        for seq in seqs:
            n += 1
            bad, shared = run_hist(seq)
            if bad is None and shared is not None and tuple(seq[:shared + 1]) not in examined and len(examined) < 40:
                examined.add(tuple(seq[:shared + 1]))
                for m in (1, 2, 3):
                    for cont in itertools.product(cont_ops, repeat=m):
                        full = list(seq[:shared + 1]) + list(cont)
                        bad, _ = run_hist(full)
                        if bad is not None:
                            seq = full
                            break
                    if bad is not None:
                        break
            if bad:
                ctx.used["history"] = ",".join(":".join(str(x) for x in o) for o in seq)
                ctx.used["why"] = f"after step {bad[0]}: {bad[1]}"
                ctx.check("the representation invariant holds after every step of every short history", False)
                return
        ctx.used["histories"] = n
        ctx.check("the representation invariant holds after every step of every short history", True)
    _HOPS = [("qalloc", a, v) for a in (0, 1) for v in (0, 1)] + [("qfree", a, v) for a in (0, 1) for v in (0, 1)] + \
            [("keep", a, v, p) for a in (0, 1) for v in (0, 1) for p in (0, 2)] + \
            [("req", a, v) for a in (0, 1) for v in (0, 1)] + [("resp", a, p) for a in (0, 1) for p in (3, 4)] + \
            [("reserve",)] + [("deliver", a, v) for a in (0, 1) for v in (0, 1)] + [("stop", a) for a in (0, 1)]
    for _first in _HOPS:
        R.add("inv[all short histories of qalloc / qfree / keep-response][starting with %s]" % ":".join(str(x) for x in _first), kind="bounded", bounded_only=True, samples=1,
              note="exhaustive over all sequences of 4 (quick) / 5 (thorough) operations from 31 (qalloc, qfree, direct keep delivery, recv request, response through "
                   "the pending list, reservation of a qubit for a pair in flight and its delivery, stop + re-registration of an application) on 2 applications x 2 "
                   "virtual qubits that start with this operation; real executor, native")(lambda ctx, _f=_first: histories(ctx, _f))

    def double_registration(ctx):
        ex = new_executor(ctx, apps=(0,))
        out = ctx.attempt(ex.init_new_application, 0, 2)
        ctx.check("registering-a-live-app-id-again-is-rejected", out[0] == "exc")
    R.add("init_new_application[live id rejected]", kind="lia", samples=2)(double_registration)

    # ------------------------------------------------------------- subroutine ids are never reused while live
    def fresh_ids(ctx):
        ex = new_executor(ctx, apps=(0, 1))
        if ctx.symbolic:
            k1 = ctx.int("live_id_1", 0, None)
            k2 = ctx.int("live_id_2", 0, None)
            ctx.assume(ctx.not_(ctx.eq(k1, k2)))
            nxt = ctx.int("next_id", 0, None)
            ctx.assume(ctx.and_(ctx.lt(k1, nxt), ctx.lt(k2, nxt)))       # invariant: live ids were handed out earlier
            ex._subroutines = M.SymKeyDict("subs", [(k1, Subroutine(app_id=0)), (k2, Subroutine(app_id=1))])
            ex._next_subroutine_id = nxt
            r = ctx.call(ex._get_new_subroutine_id)
            ctx.check("new-id-differs-from-every-live-id", ctx.and_(ctx.not_(ctx.eq(r, k1)), ctx.not_(ctx.eq(r, k2))))
            ctx.check("invariant-preserved: live and new ids below the counter", ctx.and_(ctx.lt(r, ex._next_subroutine_id), ctx.lt(k1, ex._next_subroutine_id), ctx.lt(k2, ex._next_subroutine_id)))
        else:
            # native instance: interleave three subroutines at yield points
            import itertools
            ids = []
            gens = []
            order = ctx.choice("order", list(itertools.permutations(range(3))))
            subs = [Subroutine(app_id=a, instructions=[]) for a in (0, 1, 0)]
            live = {}
            for step in range(3):
                r = ex._get_new_subroutine_id()
                ctx.check("new-id-differs-from-every-live-id", r not in live)
                live[r] = subs[step]
                ex._subroutines[r] = subs[step]
                if step == order[0] % 2:
                    ex._clear_subroutine(next(iter(live)))
                    live.pop(next(iter(live)))
            ctx.check("invariant-preserved: live and new ids below the counter", all(k < ex._next_subroutine_id for k in live))
    R.add("subroutine-ids[fresh while live]", kind="lia", samples=12)(fresh_ids)

    def canary(ctx):
        ex = new_executor(ctx, apps=(0,), um_sizes={0: 2})
        ums = _mk_ums(ctx, {0: 2})
        used = _fresh_used(ctx, ums)
        ex._qubit_unit_modules[0] = list(ums[0])
        ex._used_physical_qubit_addresses = used
        ctx.assume(_inv_lists(ctx, ums, used))
        ctx.assume(ctx.is_none(ums[0][1]))
        ex._subroutines[SID] = Subroutine(app_id=0)
        phys = ctx.int("delivered", 0, None)
        ctx.assume(ctx.not_(_in(ctx, used, phys)))
        before = set(used) if not ctx.symbolic else M.SymIntSet("c", used.arr)
        _install(ctx, ex, False)
        ctx.call(ex._allocate_physical_qubit, SID, 1, phys)
        ctx.check("allocation-never-changes-the-unit-module", ctx.eq(ex._qubit_unit_modules[0], ums[0]))
    R.canary("allocation-changes-unit-module", kind="lia", samples=40)(canary)
    return R
