"""C07 -- NV gate decompositions equal the vanilla gates they replace.

Route: the real ``NVSubroutineTranspiler.transpile`` (and through it ``_handle_*``, the
``_map_*`` / ``_move_*`` / ``swap`` builders, ``get_unused_register``) is executed by the
pyvc interpreter on ``set Qa id0; set Qb id1; <gate>`` with the *virtual ids symbolic*
(the mappers only distinguish id == 0 = electron from id != 0 = carbon; every such fork
is explored).  Each path yields a concrete NV instruction list whose unitary -- computed
with the operator each *mnemonic denotes* (specs/gates.py) in exact arithmetic over
Z[zeta_64][1/2] (specs/cyc.py) on 1, 2 or 3 wires -- is compared, up to a global phase,
with the vanilla gate embedded on the same wires.  Carbon-carbon gates: operator identity
U == G (x) I_electron, i.e. for an arbitrary electron state (the borrowed electron is
returned).  MOV: U(|psi>_src |0>_dst) == |phi>_src |psi>_dst.  Rotations with symbolic
(n, d): pass-through (simulation mode) or hardware normalisation n*2**(4-d)/2**4.
Published matrices (``to_matrix`` of every vanilla/NV class, and the two helpers in
util/quantum_gates.py they are built from) are compared numerically with the denoted
operator over the *whole* operand grid (n, d in 0..255; thorough) or a dense sub-grid
(quick) -- exhaustive numeric evaluation, reported as bounded/numeric, not as proof.
"""
from __future__ import annotations

import math

import numpy as np

from netqasm.lang.encoding import RegisterName
from netqasm.lang.instr import core, nv, vanilla
from netqasm.lang.operand import Immediate, Register
from netqasm.lang.subroutine import Subroutine
from netqasm.runtime import settings
from netqasm.sdk import transpile as TR
from netqasm.util import quantum_gates as QG
import os

from pyvc.harness import Raised, Registry
from specs import cyc, gates

LEVEL = "proof"
TECHNIQUE = ("contract-based deductive verification: symbolic execution of the real transpiler on symbolic qubit placements, emitted "
             "circuits decided by exact cyclotomic arithmetic (operator identity up to phase); rotation operands by z3 LIA; "
             "published matrices by exhaustive numeric comparison over the operand grid (labelled bounded)")

Q = [Register(RegisterName.Q, i) for i in range(16)]
SINGLE = {"x": vanilla.GateXInstruction, "y": vanilla.GateYInstruction, "z": vanilla.GateZInstruction,
          "h": vanilla.GateHInstruction, "k": vanilla.GateKInstruction, "s": vanilla.GateSInstruction,
          "t": vanilla.GateTInstruction}
ROT = {"rot_x": vanilla.RotXInstruction, "rot_y": vanilla.RotYInstruction, "rot_z": vanilla.RotZInstruction}
TWO = {"cnot": vanilla.CnotInstruction, "cphase": vanilla.CphaseInstruction}


def _transpile(ctx, instrs, debug=False, hw=None):
    """hw: None = the setting as it is (simulation mode); otherwise the (possibly symbolic) value of settings.get_is_using_hardware()"""
    if hw is not None:
        if ctx.symbolic:
            ctx.it.stubs = dict(ctx.it.stubs or {})
            ctx.it.stubs[settings.get_is_using_hardware] = lambda it_, a, k: hw
        else:
            settings.set_is_using_hardware(bool(hw))
    try:
        sub = Subroutine(instructions=instrs, app_id=0)
        tr = ctx.call(TR.NVSubroutineTranspiler, sub, debug)
        out = ctx.call(tr.transpile)
        return ctx.getattr(out, "instructions")
    finally:
        if hw is not None and not ctx.symbolic:
            settings.set_is_using_hardware(False)


def _gate_list(ctx, instrs, wire_of_value):
    """NV instruction list -> [(mnemonic, wires, (n, d))], tracking Q registers through ``set``.
    wire_of_value(v) maps the (possibly symbolic) value of a Q register to a wire index."""
    regval = {}
    out = []
    for ins in instrs:
        m = ins.mnemonic
        if isinstance(ins, core.SetInstruction):
            regval[ins.reg] = ins.imm.value
            continue
        if type(ins).__name__ == "DebugInstruction":
            continue
        if m in ("rot_x", "rot_y", "rot_z"):
            if not isinstance(ins, nv.core.RotationInstruction) or type(ins).__module__ != nv.__name__:
                raise AssertionError(f"non-NV instruction {type(ins)} left after transpilation")
            out.append((m, [wire_of_value(regval[ins.reg])], (ins.imm0.value, ins.imm1.value)))
        elif m in ("crot_x", "crot_y"):
            out.append((m, [wire_of_value(regval[ins.reg0]), wire_of_value(regval[ins.reg1])], (ins.imm0.value, ins.imm1.value)))
        else:
            raise AssertionError(f"unexpected instruction {m} ({type(ins).__module__}) in NV output")
    return out


def build():
    R = Registry("C07")
    R.explanation = ("per (gate, placement) operator identity up to global phase between the emitted NV circuit (real transpiler, symbolic "
                     "placements) and the vanilla gate, exact in Z[zeta64][1/2]; rotation operand contracts; published matrices numeric/exhaustive")
    R.trusted = [
        "specs/gates.py: the operator each mnemonic denotes (Pauli/Clifford/T, rotations exp(-i theta/2 sigma), NV controlled rotation "
        "|0><0| R(+theta) + |1><1| R(-theta))",
        "specs/cyc.py exact arithmetic (zero test by coefficient comparison in the power basis of Q(zeta64))",
        "pyvc interpreter + models; z3 LIA for operand pass-through",
    ]
    R.assumptions = ["electron is virtual id 0, carbons are the other ids (statement)",
                     "numpy/scipy floating point within 1e-9 for the published-matrix comparison (numeric, labelled bounded)"]
    R.dropped = ["docstrings, type annotations, logging calls"]

    # ---------------- single-qubit static gates
    for name, cls in SINGLE.items():
        def mk(name=name, cls=cls):
            def f(ctx):
                qid = ctx.int("id", 0, 15)
                dbg = ctx.bool("debug")
                hw = ctx.bool("hardware")
                out = _transpile(ctx, [core.SetInstruction(reg=Q[0], imm=Immediate(qid)), cls(reg=Q[0])], dbg, hw)
                gl = _gate_list(ctx, out, lambda v: 0)
                U = gates.circuit_unitary(gl, 1)
                ctx.check("unitary-equals-gate-up-to-phase", cyc.eq_up_to_phase(U, gates.vanilla_unitary(name, [0], 1)))
                ctx.check("acts-on-the-gate-register-only", all(isinstance(i, core.SetInstruction) or getattr(i, "reg", Q[0]) == Q[0] for i in out))
            return f
        R.add(f"decomp[{name}]", kind="exact", samples=6)(mk())

    # ---------------- two-qubit gates, all electron/carbon placements (ids symbolic)
    for name, cls in TWO.items():
        def mk(name=name, cls=cls):
            def f(ctx):
                a = ctx.int("id0", 0, 15)
                b = ctx.int("id1", 0, 15)
                ctx.assume(ctx.not_(ctx.eq(a, b)))
                dbg = ctx.bool("debug")
                hw = ctx.bool("hardware")
                # which of the two is the electron is decided by the code's own forks; classify on the path afterwards
                out = _transpile(ctx, [core.SetInstruction(reg=Q[3], imm=Immediate(a)),
                                       core.SetInstruction(reg=Q[5], imm=Immediate(b)), cls(reg0=Q[3], reg1=Q[5])], dbg, hw)
                a0 = ctx.truth(ctx.eq(a, 0))
                b0 = ctx.truth(ctx.eq(b, 0))
                # wires: 0 = electron, 1 = first carbon operand, 2 = second carbon operand
                wa = 0 if a0 else 1
                wb = 0 if b0 else (2 if not a0 else 1)
                n = 2 if (a0 or b0) else 3

                def wire(v):
                    if ctx.truth(ctx.eq(v, 0)):
                        return 0
                    if ctx.truth(ctx.eq(v, a)):
                        return wa
                    if ctx.truth(ctx.eq(v, b)):
                        return wb
                    raise AssertionError("register holds an id that is neither operand nor the electron")
                gl = _gate_list(ctx, out, wire)
                U = gates.circuit_unitary(gl, n)
                G = gates.vanilla_unitary(name, [wa, wb], n)
                ctx.cover("electron-control" if a0 else ("electron-target" if b0 else "carbon-carbon"))
                ctx.check("unitary-equals-gate-up-to-phase(any electron state)", cyc.eq_up_to_phase(U, G))
            return f
        R.add(f"decomp[{name}]", kind="exact", samples=24)(mk())

    # ---------------- MOV in both directions
    def mov(ctx):
        a = ctx.int("id0", 0, 15)
        b = ctx.int("id1", 0, 15)
        ctx.assume(ctx.not_(ctx.eq(a, b)))
        ctx.assume(ctx.or_(ctx.eq(a, 0), ctx.eq(b, 0)))
        out = _transpile(ctx, [core.SetInstruction(reg=Q[1], imm=Immediate(a)),
                               core.SetInstruction(reg=Q[2], imm=Immediate(b)), vanilla.MovInstruction(reg0=Q[1], reg1=Q[2])], False, ctx.bool("hardware"))
        a0 = ctx.truth(ctx.eq(a, 0))
        ws, wd = (0, 1) if a0 else (1, 0)

        def wire(v):
            return 0 if ctx.truth(ctx.eq(v, 0)) else 1
        U = gates.circuit_unitary(_gate_list(ctx, out, wire), 2)
        # columns |src=s, dst=0>
        def col(s):
            idx = (s << (1 - ws))
            return [U[r][idx] for r in range(4)]
        ok = True
        v = []
        for s in (0, 1):
            c = col(s)
            # amplitude where dst != s must vanish; remaining src-vector collected
            src_vec = []
            for r in range(4):
                dbit = (r >> (1 - wd)) & 1
                sbit = (r >> (1 - ws)) & 1
                if dbit != s:
                    ok = ok and c[r].is_zero()
                else:
                    src_vec.append((sbit, c[r]))
            v.append([x for _, x in sorted(src_vec, key=lambda t: t[0])])
        same = all(x == y for x, y in zip(v[0], v[1]))
        ctx.cover("electron-to-carbon" if a0 else "carbon-to-electron")
        ctx.check("state-transferred-to-target", ok)
        ctx.check("source-left-in-state-independent-of-input", same)
    R.add("decomp[mov]", kind="exact", samples=16)(mov)

    # MOV with operands unknown at transpile time (the KeyError path: assumed electron->carbon)
    def mov_unknown(ctx):
        out = _transpile(ctx, [vanilla.MovInstruction(reg0=Q[1], reg1=Q[2])])
        regw = {Q[1]: 0, Q[2]: 1}
        gl = []
        for ins in out:
            if ins.mnemonic.startswith("crot"):
                gl.append((ins.mnemonic, [regw[ins.reg0], regw[ins.reg1]], (ins.imm0.value, ins.imm1.value)))
            else:
                gl.append((ins.mnemonic, [regw[ins.reg]], (ins.imm0.value, ins.imm1.value)))
        U = gates.circuit_unitary(gl, 2)
        ok = U[1][0].is_zero() and U[3][0].is_zero() and U[0][2].is_zero() and U[2][2].is_zero()
        ctx.check("state-transferred-to-target", ok)
        ctx.check("source-left-in-state-independent-of-input", U[0][0] == U[1][2] and U[2][0] == U[3][2])
    R.add("decomp[mov-unknown-operands]", kind="exact", samples=1)(mov_unknown)

    # ---------------- rotations: operand contracts, both modes
    for name, cls in ROT.items():
        def mk(name=name, cls=cls):
            def f(ctx):
                n = ctx.int("n", 0, 255)
                d = ctx.int("d", 0, 255)
                hw = ctx.bool("hardware")
                qid = ctx.int("id", 0, 15)
                if ctx.symbolic:
                    ctx.it.stubs = dict(ctx.it.stubs or {})
                    ctx.it.stubs[settings.get_is_using_hardware] = lambda it_, a, k: hw
                else:
                    settings.set_is_using_hardware(bool(hw))
                try:
                    try:
                        res = ("ret", _transpile(ctx, [core.SetInstruction(reg=Q[0], imm=Immediate(qid)),
                                                       cls(reg=Q[0], imm0=Immediate(n), imm1=Immediate(d))]))
                    except Raised as r:
                        res = ("exc", r.e)
                finally:
                    if not ctx.symbolic:
                        settings.set_is_using_hardware(False)
                hwv = ctx.truth(hw)
                if hwv and not ctx.truth(ctx.le(d, 4)):
                    ctx.check("hardware-rejects-unsupported-denominator", res[0] == "exc" and isinstance(res[1], ValueError))
                    return
                ctx.check("accepted", res[0] == "ret")
                if res[0] != "ret":
                    return
                out = [i for i in res[1] if not isinstance(i, core.SetInstruction)]
                ctx.check("one-instruction-same-axis", len(out) == 1 and out[0].mnemonic == name and type(out[0]).__module__ == nv.__name__)
                ctx.check("same-register", out[0].reg == Q[0])
                N, D = out[0].imm0.value, out[0].imm1.value
                if hwv:
                    # N / 2**D == n / 2**d modulo a full turn (2 pi = 32 units of pi/16: global phase only), with D == 4   (d in 0..4 on this path)
                    ok = ctx.and_(ctx.eq(D, 4), *[ctx.implies(ctx.eq(d, k), ctx.eq(ctx.mod(N, 32), ctx.mod(ctx.mul(n, 2 ** (4 - k)), 32))) for k in range(5)])
                    ctx.check("hardware-normalised-angle-equal", ok)
                    ctx.check("hardware-normalised-rotation-is-encodable (numerator fits the 8-bit operand)", ctx.and_(ctx.ge(N, 0), ctx.le(N, 255)))
                else:
                    ctx.check("operands-passed-through", ctx.and_(ctx.eq(N, n), ctx.eq(D, d)))
            return f
        R.add(f"rotation[{name}]", kind="lia", samples=60)(mk())

    # ---------------- published matrices: exhaustive numeric over the operand grid (bounded / numeric)
    def spec_rot(axis, theta):
        c, s = math.cos(theta / 2), math.sin(theta / 2)
        return {"x": np.array([[c, -1j * s], [-1j * s, c]]), "y": np.array([[c, -s], [s, c]]),
                "z": np.array([[c - 1j * s, 0], [0, c + 1j * s]])}[axis]

    def spec_crot(axis, theta):
        z = np.zeros((2, 2))
        return np.block([[spec_rot(axis, theta), z], [z, spec_rot(axis, -theta)]])

    def same_op(a, b, tol=1e-9):
        """equal up to a global phase (both unitary):  |tr(a^dagger b)| == dim"""
        a = np.asarray(a, dtype=complex)
        b = np.asarray(b, dtype=complex)
        return a.shape == b.shape and abs(abs(np.trace(a.conj().T @ b)) - a.shape[0]) < tol * a.shape[0] and \
            np.allclose(a.conj().T @ a, np.eye(a.shape[0]), atol=tol)

    def grid(ctx, full):
        ds = list(range(256)) if full else [0, 1, 2, 3, 4, 5, 6, 7, 8, 9, 10, 16, 31, 32, 33, 64, 128, 255]
        return [(n, d) for d in ds for n in range(256)]

    MATS = [("vanilla.rot_x", vanilla.RotXInstruction, "x", False), ("vanilla.rot_y", vanilla.RotYInstruction, "y", False),
            ("vanilla.rot_z", vanilla.RotZInstruction, "z", False), ("nv.rot_x", nv.RotXInstruction, "x", False),
            ("nv.rot_y", nv.RotYInstruction, "y", False), ("nv.rot_z", nv.RotZInstruction, "z", False),
            ("nv.crot_x", nv.ControlledRotXInstruction, "x", True), ("nv.crot_y", nv.ControlledRotYInstruction, "y", True)]
    for label, cls, axis, ctrl in MATS:
        def mk(label=label, cls=cls, axis=axis, ctrl=ctrl):
            def f(ctx):
                pts = grid(ctx, os.environ.get("VERIF_TIER") == "thorough")
                bad = None
                for (n, d) in pts:
                    theta = n * math.pi / 2 ** d
                    if ctrl:
                        ins = cls(reg0=Q[0], reg1=Q[1], imm0=Immediate(n), imm1=Immediate(d))
                        ok = same_op(ins.to_matrix(), spec_crot(axis, theta)) and \
                            same_op(ins.to_matrix_target_only(), spec_rot(axis, theta))
                    else:
                        ins = cls(reg=Q[0], imm0=Immediate(n), imm1=Immediate(d))
                        ok = same_op(ins.to_matrix(), spec_rot(axis, theta))
                    if not ok:
                        bad = (n, d)
                        break
                ctx.check("published-matrix-is-the-denoted-operator", bad is None)
            return f
        R.add(f"to_matrix[{label}]", kind="numeric", bounded_only=True, samples=1,
              note="numeric, exhaustive over n in 0..255 x d in a dense sub-grid (quick) / 0..255 (thorough), tolerance 1e-9")(mk())

    def static_mats(ctx):
        for name, cls in SINGLE.items():
            ctx.check(f"published-matrix[{name}]", bool(np.allclose(cls(reg=Q[0]).to_matrix(), cyc.to_numpy(gates.STATIC[name]), atol=1e-12)))
        for name in ("x", "y", "z", "h"):
            c = getattr(nv, f"Gate{name.upper()}Instruction")
            ctx.check(f"published-matrix[nv.{name}]", bool(np.allclose(c(reg=Q[0]).to_matrix(), cyc.to_numpy(gates.STATIC[name]), atol=1e-12)))
        cn = vanilla.CnotInstruction(reg0=Q[0], reg1=Q[1])
        cp = vanilla.CphaseInstruction(reg0=Q[0], reg1=Q[1])
        ctx.check("published-matrix[cnot]", bool(np.allclose(cn.to_matrix(), cyc.to_numpy(gates.vanilla_unitary("cnot", [0, 1], 2)))))
        ctx.check("published-matrix[cphase]", bool(np.allclose(cp.to_matrix(), cyc.to_numpy(gates.vanilla_unitary("cphase", [0, 1], 2)))))
        ctx.check("published-target-matrix[cnot]", bool(np.allclose(cn.to_matrix_target_only(), cyc.to_numpy(gates.X))))
        ctx.check("published-target-matrix[cphase]", bool(np.allclose(cp.to_matrix_target_only(), cyc.to_numpy(gates.Z))))
        mv = vanilla.MovInstruction(reg0=Q[0], reg1=Q[1])
        ctx.check("published-matrix[mov]", bool(np.allclose(mv.to_matrix(), cyc.to_numpy(gates.vanilla_unitary("mov", [0, 1], 2)))))
        for k, g in QG.STATIC_QUBIT_GATE_TO_MATRIX.items():
            nm = k.name.lower()
            ref = gates.STATIC[nm] if nm in gates.STATIC else gates.vanilla_unitary(nm, [0, 1], 2)
            ctx.check(f"quantum_gates-table[{nm}]", bool(np.allclose(g, cyc.to_numpy(ref), atol=1e-12)))
    R.add("to_matrix[static-gates]", kind="numeric", bounded_only=True, samples=1,
          note="finite: every static gate literal compared with the exact spec matrix (tolerance 1e-12)")(static_mats)

    def helpers(ctx):
        bad = None
        for (n, d) in grid(ctx, os.environ.get("VERIF_TIER") == "thorough"):
            th = n * math.pi / 2 ** d
            for ax, vec in (("x", [1, 0, 0]), ("y", [0, 1, 0]), ("z", [0, 0, 1])):
                if not same_op(QG.get_rotation_matrix(vec, th), spec_rot(ax, th)) or \
                        not same_op(QG.get_controlled_rotation_matrix(vec, th), spec_crot(ax, th)):
                    bad = (ax, n, d)
                    break
            if bad:
                break
        ctx.check("rotation-helpers-are-exp(-i theta/2 sigma)-and-its-controlled-form", bad is None)
    R.add("to_matrix[quantum_gates-helpers]", kind="numeric", bounded_only=True, samples=1,
          note="numeric, exhaustive over the same operand grid, three axes, tolerance 1e-9")(helpers)

    # ---------------- canaries
    def canary(ctx):
        out = _transpile(ctx, [core.SetInstruction(reg=Q[0], imm=Immediate(0)), vanilla.GateHInstruction(reg=Q[0])])
        U = gates.circuit_unitary(_gate_list(ctx, out, lambda v: 0), 1)
        ctx.check("h-equals-k", cyc.eq_up_to_phase(U, gates.K))
    R.canary("h-is-not-k", kind="exact", samples=1)(canary)

    def canary2(ctx):
        out = _transpile(ctx, [core.SetInstruction(reg=Q[0], imm=Immediate(0)), vanilla.GateSInstruction(reg=Q[0])])
        U = gates.circuit_unitary(_gate_list(ctx, out, lambda v: 0), 1)
        ctx.check("s-equals-s-dagger", cyc.eq_up_to_phase(U, cyc.dagger(gates.S)))
    R.canary("s-is-not-its-adjoint", kind="exact", samples=1)(canary2)
    return R


def _le(ctx, a, b):
    if ctx.symbolic:
        from pyvc.values import lift_int, mk_bool
        return mk_bool(lift_int(a) <= lift_int(b))
    return a <= b
