"""Helpers shared by the SDK-level checks: fresh connections, extraction of emitted commands."""
from __future__ import annotations

from netqasm.lang.encoding import RegisterName
from netqasm.lang.ir import GenericInstr, ICmd
from netqasm.lang.operand import Register
from netqasm.sdk.connection import DebugConnection
from netqasm.sdk.shared_memory import SharedMemoryManager


def fresh_conn(name="Alice", **kw):
    """a DebugConnection on clean global state (constructed natively: configuration, not code under contract)"""
    SharedMemoryManager.reset_memories()
    DebugConnection.node_ids = {"Alice": 0, "Bob": 1, "Charlie": 2}
    return DebugConnection(name, **kw)


def pending(conn):
    return conn._builder._pending_commands


SINGLE = {GenericInstr.X: "x", GenericInstr.Y: "y", GenericInstr.Z: "z", GenericInstr.H: "h", GenericInstr.K: "k",
          GenericInstr.S: "s", GenericInstr.T: "t"}
ROTS = {GenericInstr.ROT_X: "rot_x", GenericInstr.ROT_Y: "rot_y", GenericInstr.ROT_Z: "rot_z"}
TWO = {GenericInstr.CNOT: "cnot", GenericInstr.CPHASE: "cphase"}


def quantum_events(cmds):
    """pending ICmds -> list of events on *virtual qubit ids*, tracking Q registers through ``set``:
       ('alloc', id) ('init', id) ('gate', name, [ids], angle|None) ('meas', id, M-register) ('free', id)
       plus ('classical', cmd) for everything else"""
    regval = {}
    out = []
    for c in cmds:
        if not isinstance(c, ICmd):
            out.append(("other", c))
            continue
        ins, ops = c.instruction, c.operands
        if ins == GenericInstr.SET and isinstance(ops[0], Register) and ops[0].name == RegisterName.Q:
            regval[ops[0]] = ops[1]
            continue
        if ins == GenericInstr.QALLOC:
            out.append(("alloc", regval[ops[0]]))
        elif ins == GenericInstr.INIT:
            out.append(("init", regval[ops[0]]))
        elif ins == GenericInstr.QFREE:
            out.append(("free", regval[ops[0]]))
        elif ins in SINGLE:
            out.append(("gate", SINGLE[ins], [regval[ops[0]]], None))
        elif ins in ROTS:
            out.append(("gate", ROTS[ins], [regval[ops[0]]], (ops[1], ops[2])))
        elif ins in TWO:
            out.append(("gate", TWO[ins], [regval[ops[0]], regval[ops[1]]], None))
        elif ins == GenericInstr.MEAS:
            out.append(("meas", regval[ops[0]], ops[1]))
        else:
            out.append(("classical", c))
    return out
