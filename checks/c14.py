"""C14 -- compiling never runs out of registers because of finished operations.

Contracts on the real register allocator and on every *completed* SDK operation, from an ARBITRARY set A0 of
active registers (a symbolic set: any history before, any enclosing operations still open):

  allocator   get_inactive_register(activate): returns an R register r with r not in A, A' = A u {r} iff activate;
              raises only if all 16 R registers are active  (loop contract on the real scan)
  balance     after the operation completes, the active set is A0 again   (so any sequence of completed
              operations of any length keeps compiling: the need depends only on what is currently open)
  no-clobber  every register the operation's emitted commands write is a temporary allocated inside the
              operation (hence outside A0 = the live values of enclosing operations) or a register the caller
              handed in; and two temporaries whose uses overlap in the emitted code are different registers

Operations: if_eq/ne/lt/ge/ez/nz (context and callback forms, Future / RegFuture / int operands), loop
(context, with and without an explicit register), loop_body, foreach, enumerate, loop_until, Future.add /
RegFuture.add (int, Future, modulus), measure (array / future / in place), array declaration with equal
initial values + flush, EPR keep (create / recv, post routine, context) on generic and NV hardware, EPR measure.
Bodies contain a nested operation (induction over nesting depth: premise checked per operation, induction stated).
"""
from __future__ import annotations

import z3

from netqasm.lang.encoding import RegisterName
from netqasm.lang.ir import BranchLabel, GenericInstr, ICmd
from netqasm.lang.operand import ArrayEntry, ArraySlice, Register
from netqasm.sdk.build_types import GenericHardwareConfig, NVHardwareConfig
from netqasm.sdk.constraint import ValueAtMostConstraint
from netqasm.sdk.epr_socket import EPRSocket
from netqasm.sdk.futures import RegFuture
from netqasm.sdk.memmgr import MemoryManager
from netqasm.sdk.qubit import Qubit
from pyvc import interp as I
from pyvc import models as M
from pyvc.harness import Raised, Registry, Skip
from pyvc.values import SEnum, SInt, lift_int, mk_bool

from .sdk_common import fresh_conn

LEVEL = "proof"
TECHNIQUE = ("contract-based deductive verification: resource-balance contract (active register set restored) and no-clobber contract per completed SDK "
             "operation from an arbitrary symbolic active set; loop contract on the allocator scan; z3 (arrays + LIA)")

QUAL_ALLOC = "netqasm.sdk.memmgr.MemoryManager.get_inactive_register"


def regkey(r):
    if not isinstance(r, Register):
        return None
    b = r.name.t if isinstance(r.name, SEnum) else z3.IntVal(r.name.value)
    return b * 16 + lift_int(r.index)


def install_symbolic_active(ctx, conn, name="A0"):
    """make the connection's active-register set an arbitrary set; returns a handle to compare against later"""
    mm = conn._builder._mem_mgr
    if ctx.symbolic:
        it = ctx.it
        A = M.SymIntSet(name, keyfn=regkey)
        mm._active_registers = A
        allocs = []

        def scan(it_, stn, sc):
            S = sc.self0._active_registers
            if not isinstance(S, M.SymIntSet):
                return NotImplemented
            it_.fresh_ctr += 1
            m = z3.Int(f"alloc!{it_.fresh_ctr}")
            j = z3.Int("j!a")
            it_.pc.append(z3.And(m >= 0, m <= 16, *[z3.Implies(m > jj, z3.Select(S.arr, jj)) for jj in range(16)]))
            if it_.decide(m == 16):
                return True                    # every R register is active: the scan ends, the code raises
            it_.assign(stn.target, SInt(m), sc)
            try:
                it_.exec_block(stn.body, sc)
            except I._Return as r:
                allocs.append((m, r.v))
                raise
            raise I.PathAbort()                # register m is active: invariant extends to m + 1
        it.loop_contracts[(QUAL_ALLOC, 0)] = scan
        return A.arr, allocs
    # native: random subset of the R bank already active (leaving room for the operation)
    act = set()
    for i in range(16):
        if ctx.int(f"active_R{i}", 0, 3) == 0:
            act.add(Register(RegisterName.R, i))
    if len(act) > 7:
        raise Skip()
    mm._active_registers = act
    allocs = []
    orig = mm.get_inactive_register

    def wrapped(activate=False):
        r = orig(activate)
        allocs.append((r.index, r))
        return r
    mm.get_inactive_register = wrapped
    return set(act), allocs


def check_balance(ctx, conn, A0, label="balance: active registers restored"):
    A = conn._builder._mem_mgr._active_registers
    if ctx.symbolic:
        k = z3.Int("k!bal")
        ctx.check(label, mk_bool(z3.Select(A.arr, k) == z3.Select(A0, k)))
    else:
        ctx.check(label, set(A) == A0)


WRITES_FIRST = {GenericInstr.SET, GenericInstr.LOAD, GenericInstr.LEA, GenericInstr.ADD, GenericInstr.SUB, GenericInstr.ADDM, GenericInstr.SUBM}


def _regs_in(op):
    if isinstance(op, Register):
        return [op]
    if isinstance(op, ArrayEntry):
        return [op.index] if isinstance(op.index, Register) else []
    if isinstance(op, ArraySlice):
        return [x for x in (op.start, op.stop) if isinstance(x, Register)]
    return []


BRANCHES = {GenericInstr.BEQ, GenericInstr.BNE, GenericInstr.BLT, GenericInstr.BGE, GenericInstr.BEZ, GenericInstr.BNZ}


def _def_use(c):
    """(written register | None, [read registers]) of an emitted command"""
    ops = c.operands
    w = None
    rest = list(ops)
    if c.instruction in WRITES_FIRST and ops and isinstance(ops[0], Register):
        w, rest = ops[0], list(ops[1:])
    elif c.instruction == GenericInstr.MEAS and len(ops) > 1 and isinstance(ops[1], Register):
        w, rest = ops[1], [ops[0]]
    uses = [r for o in rest for r in _regs_in(o)]
    if w is not None and c.instruction == GenericInstr.LOAD:
        pass
    return w, uses


def _vkey(r):
    """liveness key of an R register: the symbol of an allocated temporary, or the name of a concrete R register (handed in, e.g. a loop register
    given by the caller)"""
    if isinstance(r.index, SInt):
        return str(r.index.t)
    if isinstance(r.index, int) and r.name == RegisterName.R:
        return f"R{r.index}"
    return None


def _idx_term(r):
    return r.index.t if isinstance(r.index, SInt) else z3.IntVal(int(r.index))


def check_no_clobber(ctx, cmds, A0, allocs, handed_in=()):
    """written registers of the emitted commands are temporaries of this operation (outside A0) or handed in;
    two temporaries interfere (one is live where the other is written -- liveness over the emitted control-flow
    graph) only if they are different registers"""
    n = len(cmds)
    labels = {c.name: p for p, c in enumerate(cmds) if isinstance(c, BranchLabel)}
    succ = []
    du = []
    for p, c in enumerate(cmds):
        if not isinstance(c, ICmd):
            succ.append([p + 1] if p + 1 < n else [])
            du.append((None, []))
            continue
        du.append(_def_use(c))
        tgt = None
        if c.operands and hasattr(c.operands[-1], "name") and not isinstance(c.operands[-1], Register) and type(c.operands[-1]).__name__ == "Label":
            tgt = labels.get(c.operands[-1].name)
        if c.instruction == GenericInstr.JMP:
            succ.append([tgt] if tgt is not None else [])
        elif c.instruction in BRANCHES:
            succ.append(([p + 1] if p + 1 < n else []) + ([tgt] if tgt is not None else []))
        else:
            succ.append([p + 1] if p + 1 < n else [])
    regof = {}
    live_in = [set() for _ in range(n)]
    live_out = [set() for _ in range(n)]
    changed = True
    while changed:
        changed = False
        for p in range(n - 1, -1, -1):
            w, uses = du[p]
            out = set()
            for q in succ[p]:
                out |= live_in[q]
            inn = set(out)
            if w is not None and _vkey(w):
                inn.discard(_vkey(w))
                regof[_vkey(w)] = w
            for u in uses:
                if _vkey(u):
                    inn.add(_vkey(u))
                    regof[_vkey(u)] = u
            if out != live_out[p] or inn != live_in[p]:
                live_out[p], live_in[p] = out, inn
                changed = True
    writes = [(p, du[p][0]) for p in range(n) if du[p][0] is not None and (not isinstance(du[p][0].name, RegisterName) or du[p][0].name == RegisterName.R)]
    if ctx.symbolic:
        ok = True
        for pos, w in writes:
            if isinstance(w.index, SInt):
                ok = ctx.and_(ok, mk_bool(z3.Not(z3.Select(A0, regkey(w)))))
            elif w in handed_in:
                continue
            else:
                ok = False
        ctx.check("no-clobber: written registers are own temporaries outside the enclosing live set (or handed in)", ok)
        ok2 = True
        seen = set()
        for p in range(n):
            w = du[p][0]
            if w is None or not _vkey(w):
                continue
            for v in live_out[p]:
                if v == _vkey(w) or (v, _vkey(w)) in seen:
                    continue
                seen.add((v, _vkey(w)))
                seen.add((_vkey(w), v))
                if not isinstance(regof[v].index, SInt) and not isinstance(w.index, SInt):
                    continue            # two concrete registers with different names
                ok2 = ctx.and_(ok2, mk_bool(_idx_term(regof[v]) != _idx_term(w)))
        ctx.check("no-clobber: a temporary is never written while another live temporary holds the same register", ok2)
    else:
        own = {r for _, r in allocs}
        ok = all((w in own and w not in A0) or w in handed_in for _, w in writes)
        ctx.check("no-clobber: written registers are own temporaries outside the enclosing live set (or handed in)", ok)
        # natively two temporaries in one register cannot be told apart by name; what can be seen is a register handed in by the caller (live over the
        # whole operation) being handed out again by the allocator as a temporary
        ctx.check("no-clobber: a temporary is never written while another live temporary holds the same register", not (own & set(handed_in)))


def build():
    R = Registry("C14")
    R.explanation = ("resource-balance and no-clobber contracts per completed SDK operation from an arbitrary symbolic active-register set; allocator contract; "
                     "any sequence of completed operations then keeps compiling (induction over the sequence, stated)")
    R.trusted = ["pyvc interpreter / models (builder, futures, memory manager interpreted; context managers with exact generator semantics)",
                 "z3 arrays + LIA; the allocator's scan summarised by a loop contract (invariant: all lower R registers active)"]
    R.assumptions = ["induction over nesting depth and over the sequence of operations is pen-and-paper: the per-operation premise (balanced, given balanced bodies) is machine-checked",
                     "bodies of contexts/callbacks are themselves SDK operations (one nested operation per obligation)",
                     "live ranges from the emitted command order, extended over backward-jump regions (conservative)"]
    R.dropped = ["docstrings, type annotations, logging calls, line tracking (track_lines=False)"]

    # ------------------------------------------------------------------ allocator
    def allocator(ctx):
        mm = MemoryManager()
        act = ctx.bool("activate")

        class C:
            pass
        conn = C()
        conn._builder = C()
        conn._builder._mem_mgr = mm
        A0, allocs = install_symbolic_active(ctx, conn)
        out = ctx.attempt(mm.get_inactive_register, act)
        if out[0] == "exc":
            ctx.check("raises-only-when-every-R-register-is-active", isinstance(out[1], RuntimeError) and _all_active(ctx, A0))
            check_balance(ctx, conn, A0, "on-failure: active set unchanged")
            return
        r = out[1]
        ctx.check("returns-an-R-register-with-index-0..15", r.name == RegisterName.R and ctx.truth(ctx.and_(ctx.ge(r.index, 0), ctx.le(r.index, 15))))
        ctx.check("returned-register-was-inactive", ctx.not_(_member(ctx, A0, r)))
        A = mm._active_registers
        if ctx.symbolic:
            k = z3.Int("k!al")
            want = z3.If(z3.And(act.t, k == regkey(r)), z3.BoolVal(True), z3.Select(A0, k))
            ctx.check("active-set-gains-exactly-that-register-iff-activate", mk_bool(z3.Select(A.arr, k) == want))
        else:
            ctx.check("active-set-gains-exactly-that-register-iff-activate", set(A) == (A0 | {r} if act else A0))
    R.add("allocator[get_inactive_register]", kind="lia", samples=200, inductive=True)(allocator)

    def allocator_seq(ctx):
        # native long random walk over allocate / release (bounded stand-in for 'any sequence')
        mm = MemoryManager()
        held = []
        n = 0
        for step in range(300):
            if held and (ctx.int(f"s{step}", 0, 2) == 0 or len(held) == 16):
                r = held.pop(ctx.int(f"p{step}", 0, len(held) - 1))
                mm.remove_active_register(r)
            else:
                try:
                    r = mm.get_inactive_register(activate=True)
                except RuntimeError:
                    ctx.check("allocation-succeeds-while-a-register-is-free", len(held) == 16)
                    continue
                ctx.check("fresh-register", r not in held and r.name == RegisterName.R and 0 <= r.index < 16)
                held.append(r)
        ctx.check("allocation-succeeds-while-a-register-is-free", True)
    R.add("allocator[random walk]", kind="bounded", bounded_only=True, samples=40, note="bounded: 40 seeded random walks of 300 allocate/release steps")(allocator_seq)

    # ------------------------------------------------------------------ operations
    def setup(ctx, hw=None, epr=False):
        kw = {}
        sock = None
        if epr:
            sock = EPRSocket("Bob")
            kw["epr_sockets"] = [sock]
        if hw is not None:
            kw["hardware_config"] = hw
        conn = fresh_conn("Alice", **kw)
        return conn, sock

    from specs import sdk_ops
    OPS = {n: (f, {}) for n, f in sdk_ops.OPS.items()}

    for name, (f, kw) in OPS.items():
        def mk(f=f, name=name):
            def g(ctx):
                conn, _ = setup(ctx)
                q = Qubit(conn)
                arr = conn.new_array(3, init_values=[1, 2, 0])
                reg = conn._builder.new_register()          # an enclosing live value: its register stays active
                conn._builder.subrt_pop_all_pending_commands()
                act_before_reg = reg.reg
                A0, allocs = install_symbolic_active(ctx, conn)
                if ctx.symbolic:
                    ctx.it.pc.append(z3.Select(A0, regkey(act_before_reg)))      # reg is live
                else:
                    conn._builder._mem_mgr._active_registers.add(act_before_reg)
                    A0 = set(conn._builder._mem_mgr._active_registers)
                if "explicit register" in name:
                    r5 = Register(RegisterName.R, 5)
                    if ctx.symbolic:
                        ctx.assume(ctx.not_(_member(ctx, A0, r5)))
                    elif r5 in A0:
                        raise Skip()
                import inspect
                extra = {}
                params = inspect.signature(f).parameters
                if "k" in params:
                    extra["k"] = ctx.int("k", -3, 300)          # operand VALUE of the operation: any (0, negative, large)
                if "m" in params:
                    extra["m"] = ctx.int("m", 1, 300)
                out = ctx.attempt(f, conn, q, arr, reg, **extra)
                if out[0] == "exc":
                    # running out of registers is legitimate only if A0 leaves too few free
                    ctx.check("operation-compiles-when-enough-registers-are-free", _few_free(ctx, A0, 10))
                    return
                check_balance(ctx, conn, A0)
                if out[1] == "flushed":
                    ctx.check("balance: every measurement register is free again after the flush",
                              all(not used for used in conn._builder._mem_mgr._used_meas_registers.values()))
                if out[1] != "flushed":
                    check_no_clobber(ctx, list(conn._builder._pending_commands), A0, allocs, handed_in=list(out[1] or []))
            return g
        R.add(f"op[{name}]", kind="lia", samples=40, max_paths=3000, inductive=True)(_wrap_native_sdk(mk()))

    # ------------------------------------------------------------------ EPR operations
    def mk_epr(kind, hw, number, seq=False, post=False):
        def g(ctx):
            conn, sock = setup(ctx, hw=hw() if hw else None, epr=True)
            conn._builder.subrt_pop_all_pending_commands()
            A0, allocs = install_symbolic_active(ctx, conn)

            out = ctx.attempt(sdk_ops.epr_op, conn, sock, kind, number, post)
            if out[0] == "exc":
                ctx.check("operation-compiles-when-enough-registers-are-free", _few_free(ctx, A0, 12))
                return
            check_balance(ctx, conn, A0)
            check_no_clobber(ctx, list(conn._builder._pending_commands), A0, allocs)
        return g
    EPRS = [("create_keep", None, 2, False, False), ("recv_keep", None, 2, False, False), ("recv_keep", None, 2, True, True),
            ("create_keep", None, 2, True, True), ("recv_keep", lambda: NVHardwareConfig(3), 2, False, False),
            ("create_keep", lambda: NVHardwareConfig(3), 1, False, False), ("recv_measure", None, 2, False, False),
            ("create_measure", None, 2, False, False), ("create_context", None, 2, False, False), ("recv_context", None, 2, False, False),
            ("recv_rsp", None, 2, False, False), ("create_keep_min_fidelity", None, 2, False, False), ("recv_keep_min_fidelity", None, 2, False, False)]
    for kind, hw, number, seq, post in EPRS:
        tag = f"{kind}{'+post' if post else ''}{'@NV' if hw else ''}"
        R.add(f"op[epr {tag}]", kind="lia", samples=25, max_paths=3000, inductive=True)(_wrap_native_sdk(mk_epr(kind, hw, number, seq, post)))

    # ------------------------------------------------------------------ long sequences (bounded stand-in for 'any length')
    def long_sequence(ctx):
        conn, _ = setup(ctx)
        q = Qubit(conn)
        arr = conn.new_array(3, init_values=[1, 2, 0])
        names = [n for n in OPS if "explicit" not in n]
        for step in range(120):
            nm = names[ctx.int(f"op{step}", 0, len(names) - 1)]
            reg = conn._builder.new_register()
            try:
                OPS[nm][0](conn, q, arr, reg)
            except RuntimeError as e:
                ctx.check("a-long-sequence-of-completed-operations-keeps-compiling", False)
                return
            conn._builder._mem_mgr.remove_active_register(reg.reg)
            if step % 7 == 6:
                conn._builder.subrt_pop_pending_subroutine()
                conn._builder._reset()
        ctx.check("a-long-sequence-of-completed-operations-keeps-compiling", len(conn._builder._mem_mgr._active_registers) == 0)
    R.add("sequence[120 random completed operations, flush every 7]", kind="bounded", bounded_only=True, samples=12,
          note="bounded: 12 seeded random sequences of 120 completed operations with periodic flushes")(long_sequence)

    def canary(ctx):
        conn, _ = setup(ctx)
        conn._builder.subrt_pop_all_pending_commands()
        A0, allocs = install_symbolic_active(ctx, conn)
        out = ctx.attempt(conn._builder.new_register)
        if out[0] == "ret":
            check_balance(ctx, conn, A0, "new_register-leaves-the-active-set-unchanged")
    R.canary("new_register-keeps-its-register", kind="lia", samples=30)(_wrap_native_sdk(canary))
    return R


def _member(ctx, A0, r):
    if ctx.symbolic:
        return mk_bool(z3.Select(A0, regkey(r)))
    return r in A0


def _all_active(ctx, A0):
    if ctx.symbolic:
        j = z3.Int("j!all")
        return mk_bool(z3.Implies(z3.And(j >= 0, j < 16), z3.Select(A0, j)))
    return all(Register(RegisterName.R, i) in A0 for i in range(16))


def _few_free(ctx, A0, need):
    """fewer than ``need`` R registers are free in A0"""
    if ctx.symbolic:
        free = z3.Sum([z3.If(z3.Select(A0, i), 0, 1) for i in range(16)])
        return mk_bool(free < need)
    return sum(1 for i in range(16) if Register(RegisterName.R, i) not in A0) < need


def _wrap_native_sdk(f):
    """SDK operations are plain python in these obligations: under SymCtx the whole body is interpreted via ctx.call"""
    def g(ctx):
        return f(ctx)
    return g
