"""C09 -- SDK and controller agree on which virtual qubits exist.

Local lemma, checked from EVERY abstract state of the statement's domain: qubit budget b in 1..5, hardware
generic / NV (with and without the NV transpiler), set S of live virtual ids any subset of {0..b-1} that the SDK
can reach (at most b, resp. b-1 on single-communication-qubit hardware).  From each such state every primitive
(new qubit, gate, two-qubit gate, in-place / destructive measurement, free, EPR create/recv keep of 1 or 2 pairs)
and every pair of primitives within one flush or split by a flush is run through the REAL pipeline (Builder ->
assembler [-> NV transpiler] -> base Executor) and must satisfy:

    the subroutines execute without allocation fault (no unallocated qubit addressed, none allocated twice,
    none outside the unit module);  after every flush  {ids of the connection's active handles} == {virtual ids
    allocated on the controller};  the ids are pairwise distinct;  a destructively measured / freed handle's id
    is available again.

The state space is finite (62 states per hardware kind) and is enumerated completely, so for the stated domain
the lemma is decided for every state; histories of any length follow by induction over the sequence (stated).
"""
from __future__ import annotations

import itertools

from netqasm.qlink_compat import BellState, LinkLayerOKTypeK, ReturnType
from netqasm.sdk.build_types import GenericHardwareConfig, NVHardwareConfig
from netqasm.sdk.epr_socket import EPRSocket
from netqasm.sdk.futures import Future
from netqasm.sdk.transpile import NVSubroutineTranspiler
from pyvc.harness import Raised, Registry, Skip
from specs import sdk_progs as P

from .c04 import _install
from .pipeline import drive, make_pipeline

LEVEL = "proof"
TECHNIQUE = ("contract-based deductive verification: local allocation-agreement lemma per SDK qubit primitive, decided by complete enumeration of the finite abstract state "
             "space (budget 1..5 x live-id subsets x hardware) with the real Builder/assembler/transpiler/Executor executed by the pyvc interpreter")


def _subsets(b, limit):
    out = []
    for r in range(0, limit + 1):
        for s in itertools.combinations(range(b), r):
            out.append(tuple(s))
    return out


def _pipeline(ctx, hw, b, transpile):
    kw = dict(hardware_config=(NVHardwareConfig(b) if hw == "nv" else GenericHardwareConfig(b)), max_qubits=b)
    if transpile:
        kw["compiler"] = NVSubroutineTranspiler
    sock = EPRSocket("Bob")
    conn, ex = make_pipeline(ctx, "Alice", epr_sockets=[sock], **kw)
    if ctx.symbolic:
        _install(ctx, ex, False)
    state = {"next_phys": 100, "faults": [], "electron": [], "bells": None}      # bells: Bell states reported for the delivered pairs, in order (default Phi+)

    class EvLog(list):
        """processor event log that checks, when an event is recorded, that every virtual qubit it addresses is allocated
        (what any real back end does when it translates the address: Executor._get_position raises otherwise)"""
        def append(self, e):
            list.append(self, e)
            um = ex._qubit_unit_modules[0]
            addrs = {"single": e[2:3], "two": e[2:4], "rot": e[2:3], "crot": e[2:4], "meas": e[1:2]}.get(e[0], ())
            for a in addrs:
                if isinstance(a, int) and not (0 <= a < len(um) and um[a] is not None):
                    (state["electron"] if (a == 0 and transpile) else state["faults"]).append(f"unallocated-virtual-qubit: {e[0]} {e[1] if e[0] != 'meas' else ''} addresses virtual qubit {a}, allocated: {[v for v, p in enumerate(um) if p is not None]}")
    ex.events = EvLog(ex.events)

    def run(sub):
        def on_wait(k):
            # deliver every outstanding keep pair (the link layer hands over fresh physical qubits)
            for tab, creator in ((ex._epr_create_requests, True), (ex._epr_recv_requests, False)):
                ents = list(tab.entries) if hasattr(tab, "entries") else list(tab.items())
                for key, q in ents:
                    for d in list(q):
                        for _ in range(d.pairs_left):
                            state["next_phys"] += 1
                            r = LinkLayerOKTypeK(type=ReturnType.OK_K, logical_qubit_id=state["next_phys"], directionality_flag=0 if creator else 1,
                                                 purpose_id=key[1], remote_node_id=key[0],
                                                 bell_state=(state["bells"].pop(0) if state["bells"] else BellState.PHI_PLUS))
                            ctx.call(ex._handle_epr_response, r)
        try:
            drive(ctx, ex, sub, on_wait)
        except Raised as r:
            state["faults"].append(f"{type(r.e).__name__}: {str(r.e)[:120]}")
    conn.runner = run
    return conn, ex, sock, state


def _controller_ids(ex, app=0):
    um = ex._qubit_unit_modules[app]
    return {v for v, p in enumerate(um) if p is not None}


def _sdk_ids(conn):
    ids = []
    for q in conn.active_qubits:
        if isinstance(q.qubit_id, Future):
            continue
        ids.append(q.qubit_id)
    return ids


class _Nat:
    """minimal native context (state-space exploration at obligation-generation time)"""
    symbolic = False
    rng = None

    def call(self, fn, *a, **k):
        try:
            return fn(*a, **k)
        except Exception as e:
            raise Raised(e)


_REACH_CACHE = {}


def reachable_states(hw, transpile, b, limit, prims_for, after):
    """abstract states (sorted live ids) the SDK itself can reach while keeping at most ``limit`` qubits alive, each with a
    recipe (sequence of primitives, flushed after each).  Computed by running the real SDK natively (breadth first)."""
    key = (hw, transpile, b)
    if key in _REACH_CACHE:
        return _REACH_CACHE[key]
    nat = _Nat()
    seen = {(): []}
    frontier = [()]
    while frontier:
        nxt = []
        for st in frontier:
            recipe = seen[st]
            n, room = len(st), limit - len(st)
            for p in prims_for(n, room, hw):
                if p[0] in ("x", "cnot", "meas_inplace"):
                    continue          # do not change the set of live ids
                conn, ex, sock, state = _pipeline(nat, hw, b, transpile)
                handles = []
                try:
                    P.qubit_history(conn, sock, handles, recipe + [p, ("flush",)])
                except Exception:
                    continue
                if state["faults"]:
                    continue
                ids = tuple(sorted(_sdk_ids(conn)))
                if any(i >= b for i in ids) or sorted(ids) != sorted(_controller_ids(ex)):
                    continue
                if ids not in seen:
                    seen[ids] = recipe + [p, ("flush",)]
                    nxt.append(ids)
        frontier = nxt
    _REACH_CACHE[key] = seen
    return seen


def build():
    R = Registry("C09")
    R.explanation = ("allocation-agreement lemma per qubit primitive and per pair of primitives, from every abstract state (budget 1..5, every reachable subset of live ids, generic/NV, "
                     "with/without NV transpiler), through the real pipeline; complete enumeration of the finite state space")
    R.trusted = ["pyvc interpreter / models (here in concrete mode: every value is concrete, the interpreter's semantics is CPython's)",
                 "link layer: a keep request is answered by fresh physical qubits, one response per pair (environment stub)"]
    R.assumptions = ["induction over the history (sequence of primitives) is pen-and-paper; the local lemma is machine-checked from every state",
                     "host programs keep at most the budget alive (one fewer on NV), as the statement requires",
                     "EPR context form (create_context/recv_context) is covered by a separate obligation with known finding"]
    R.dropped = ["docstrings, type annotations, logging calls"]

    def prims_for(n_handles, room, hw):
        ps = []
        if room >= 1:
            ps.append(("new",))
            ps.append(("create_keep", 1))
            ps.append(("recv_keep", 1))
        if room >= 2 and hw == "generic":
            ps.append(("create_keep", 2))
        for k in range(n_handles):
            ps += [("x", k), ("meas_inplace", k), ("meas", k), ("free", k)]
        if n_handles >= 2:
            ps.append(("cnot", 0, 1))
        return ps

    def after(prim, n_handles, room):
        k = prim[0]
        if k in ("new",):
            return n_handles + 1, room - 1
        if k in ("create_keep", "recv_keep"):
            return n_handles + prim[1], room - prim[1]
        if k in ("meas", "free"):
            return n_handles - 1, room + 1
        return n_handles, room

    for hw, transpile in (("generic", False), ("nv", False), ("nv", True)):
        for b in (1, 2, 3, 4, 5):
            limit = b if hw == "generic" else b - 1
            if limit < 1:
                continue
            states = reachable_states(hw, transpile, b, limit, prims_for, after)

            def mk(hw=hw, transpile=transpile, b=b, limit=limit, pairs=True, states=states):
                order = sorted(states)

                def f(ctx):
                    S = ctx.choice("live_ids", order)
                    recipe = states[S]
                    n0, room0 = len(S), limit - len(S)
                    first = prims_for(n0, room0, hw)
                    p1 = ctx.choice("first", first)
                    n1, room1 = after(p1, n0, room0)
                    p2, split = None, False
                    if pairs:
                        second = [None, ("flush",)] + prims_for(n1, room1, hw)
                        p2 = ctx.choice("then", second)
                        if p2 == ("flush",):
                            rest = prims_for(n1, room1, hw)
                            p2 = ctx.choice("after_flush", rest) if rest else None
                            split = True
                    conn, ex, sock, state = _pipeline(ctx, hw, b, transpile)
                    handles = []
                    ctx.call(P.qubit_history, conn, sock, handles, list(recipe))
                    ctx.check("state-construction: SDK and controller agree on S", sorted(_sdk_ids(conn)) == sorted(S) == sorted(_controller_ids(ex)) and not state["faults"])
                    seq = [p1] + ([("flush",)] if split else []) + ([p2] if p2 else []) + [("flush",)]
                    out = ctx.attempt(P.qubit_history, conn, sock, handles, seq)
                    ctx.check("sdk-accepts-the-program (within the budget)", out[0] == "ret")
                    if out[0] != "ret":
                        return
                    ctx.check("no-allocation-fault-on-the-controller", not state["faults"])
                    ctx.check("NV-transpiled code uses virtual qubit 0 (the electron) only while it is allocated", not state["electron"])
                    ids = _sdk_ids(conn)
                    ctx.check("active-handles-have-distinct-ids", len(set(ids)) == len(ids))
                    ctx.check("active-handles == allocated-virtual-qubits after the flush", sorted(ids) == sorted(_controller_ids(ex)))
                    ctx.check("handle-list-matches-program", len(ids) == len(handles))
                return f
            tag = f"{hw}{'+transpiler' if transpile else ''}, budget {b}"
            for si, S in enumerate(sorted(states)):
                R.add(f"lemma[{tag}][single primitive from state {list(S)}]", kind="exhaustive", samples=6, max_paths=100000, preset={"live_ids": si})(mk(pairs=False))
                R.add(f"lemma[{tag}][pairs from state {list(S)}]", kind="exhaustive", samples=6, max_paths=100000, preset={"live_ids": si},
                      thorough_only=(b >= 4 or (b >= 3 and (transpile or hw == "generic"))))(mk(pairs=True))

    def epr_context(ctx):
        hw = ctx.choice("hw", ["generic", "nv"])
        conn, ex, sock, state = _pipeline(ctx, hw, 3, False)

        def prog():
            with sock.create_context(number=2) as (q, pair):
                q.measure()
            conn.flush()
        from specs import sdk_progs
        out = ctx.attempt(sdk_progs.epr_context_measure, conn, sock)
        ctx.check("no-allocation-fault-on-the-controller", out[0] == "ret" and not state["faults"])
        ctx.check("active-handles == allocated-virtual-qubits after the flush", sorted(_sdk_ids(conn)) == sorted(_controller_ids(ex)))
    R.add("lemma[epr context: every pair measured inside]", kind="exhaustive", samples=4)(epr_context)

    def epr_sequential(ctx):
        hw = ctx.choice("hw", ["generic", "nv"])
        role = ctx.choice("role", ["create", "recv"])
        conn, ex, sock, state = _pipeline(ctx, hw, 3, False)
        from specs import sdk_progs
        out = ctx.attempt(sdk_progs.epr_sequential_measure, conn, sock, role)
        ctx.check("no-allocation-fault-on-the-controller", out[0] == "ret" and not state["faults"])
        ctx.check("active-handles == allocated-virtual-qubits after the flush", sorted(_sdk_ids(conn)) == sorted(_controller_ids(ex)))
    R.add("lemma[epr sequential form: every pair measured in the post routine]", kind="exhaustive", samples=8)(epr_sequential)

    def epr_all_at_once(ctx):
        """a keep request for two pairs whose Bell states need corrections: every correction gate addresses an allocated virtual qubit"""
        hw = ctx.choice("hw", ["generic", "nv"])
        role = ctx.choice("role", ["create", "recv"])
        tr = ctx.choice("transpiler", [False, True]) if hw == "nv" else False
        conn, ex, sock, state = _pipeline(ctx, hw, 3, tr)
        state["bells"] = [ctx.choice(f"bell{k}", list(BellState)) for k in range(2)]
        from specs import sdk_progs
        out = ctx.attempt(sdk_progs.epr_keep_two, conn, sock, role)
        ctx.check("no-allocation-fault-on-the-controller", out[0] == "ret" and not state["faults"])
        ctx.check("active-handles == allocated-virtual-qubits after the flush", sorted(_sdk_ids(conn)) == sorted(_controller_ids(ex)))
    R.add("lemma[epr keep, two pairs at once, any reported Bell states]", kind="exhaustive", samples=24, max_paths=2000)(epr_all_at_once)

    def canary(ctx):
        conn, ex, sock, state = _pipeline(ctx, "generic", 2, False)
        handles = []
        ctx.call(P.qubit_history, conn, sock, handles, [("new",), ("flush",)])
        ctx.check("a-new-qubit-is-not-allocated-on-the-controller", sorted(_controller_ids(ex)) == [])
    R.canary("new-qubit-allocates", kind="exhaustive", samples=1)(canary)
    return R
