"""C10 -- entanglement looks like Phi+ whatever Bell state the link delivered.

  corrections   the receiver's program (recv_keep, recv_keep with post routine / sequential, recv_keep_with_info,
                recv_rsp, recv_rsp_with_info; generic and NV hardware; with other live qubits shifting the virtual
                ids) is run through the REAL pipeline with the Bell state b_i of every delivered pair SYMBOLIC; the
                rotations the controller applies are attributed to PHYSICAL qubits at the moment they are applied.
                Contract: the gates applied to pair i's qubit are exactly the Pauli correction P(b_i)
                (Phi+ : none, Phi- : Z, Psi+ : X, Psi- : X then Z, as pi-rotations) and no other qubit is touched;
                with the expectation switched off nothing is applied.
  pauli table   spec lemma, exact (Z[zeta64]):  (P(b) x I)|bell_b>  ~  |Phi+>  for the numbering of qlink_compat.BellState
  measure       EprMeasureResult.measurement_outcome: for both raw outcomes, every Bell state and the six named bases,
                the post-processed outcome is the raw one flipped iff P(b) anticommutes with the measured Pauli (which
                gives the joint statistics of Phi+); without post-processing it is the raw outcome.
"""
from __future__ import annotations

import z3

from netqasm.backend.executor import Executor
from netqasm.qlink_compat import BellState, EPRRole, LinkLayerOKTypeK, ReturnType
from netqasm.sdk.build_epr import EprMeasBasis, EprMeasureResult, basis_to_rotation
from netqasm.sdk.build_types import GenericHardwareConfig, NVHardwareConfig
from netqasm.sdk.epr_socket import EPRSocket
from pyvc.harness import Raised, Registry
from specs import cyc, gates
from specs import sdk_progs as P

from .c04 import _install
from .pipeline import drive, make_pipeline, table_entries

LEVEL = "proof"
TECHNIQUE = ("contract-based deductive verification: symbolic execution of the emitted correction code on the real executor with symbolic Bell states (gates attributed to "
             "physical qubits), exact Pauli-table lemma, exhaustive post-processing table")

CORRECTION = {BellState.PHI_PLUS: [], BellState.PHI_MINUS: ["rot_z"], BellState.PSI_PLUS: ["rot_x"], BellState.PSI_MINUS: ["rot_x", "rot_z"]}


def build():
    R = Registry("C10")
    R.explanation = ("receiver-side correction code executed on the real executor with symbolic Bell states: rotations per physical qubit == Pauli correction of that pair's "
                     "Bell state, nothing else touched; exact Pauli-table lemma; complete post-processing table for measure-directly")
    R.trusted = ["specs/gates.py, specs/cyc.py (exact Pauli/Bell algebra)", "pyvc interpreter / models; link layer = stub delivering one keep response per pair with fresh physical qubits"]
    R.assumptions = ["pair counts 1..2 in the quick tier, 3..4 in the thorough tier (the statement's 1..4)",
                     "a pi-rotation about X (Z) is the Pauli X (Z) up to global phase (C07's rotation semantics)"]
    R.dropped = ["docstrings, type annotations, logging calls"]

    def mk_corr(variant, hw, number, expect, extra, fmt="0.1"):
        """fmt: format of the link-layer responses -- netqasm's own tuples ("0.1"), qlink-interface 1.0 objects ("1.0"), or 1.0 objects whose Bell state
        is the plain integer of the 1.0 numbering, as read from the wire ("1.0 int")"""
        def f(ctx):
            b = 5
            kw = dict(hardware_config=(NVHardwareConfig(b) if hw == "nv" else GenericHardwareConfig(b)), max_qubits=b)
            sock = EPRSocket("Bob")
            conn, ex = make_pipeline(ctx, "Alice", epr_sockets=[sock], **kw)
            if ctx.symbolic:
                _install(ctx, ex, False)
            bells = [ctx.enum(f"bell{i}", BellState) for i in range(number)]
            phys_of_pair = [200 + i for i in range(number)]
            applied = []        # (mnemonic, physical qubit, n, d)
            if ctx.symbolic:
                def rot(it_, a, k):
                    instr, addr = a[1], a[3]
                    um = ex._qubit_unit_modules[0]
                    applied.append((instr.mnemonic, um[addr] if isinstance(addr, int) else ("virtual", addr), instr.imm0.value, instr.imm1.value))
                ctx.it.stubs[Executor._do_single_qubit_rotation] = rot
            else:
                def rot(instr, subroutine_id, address, angle):
                    applied.append((instr.mnemonic, ex._qubit_unit_modules[0][address], instr.imm0.value, instr.imm1.value))
                ex._do_single_qubit_rotation = rot
            delivered = {"n": 0}

            def run(sub):
                def on_wait(k):
                    for key, q in table_entries(ex._epr_recv_requests):
                        for d in list(q):
                            for _ in range(min(d.pairs_left, 1 if hw == "nv" or "post" in variant else d.pairs_left)):
                                i = delivered["n"]
                                if i >= number:
                                    return
                                delivered["n"] += 1
                                if fmt == "0.1":
                                    r = LinkLayerOKTypeK(type=ReturnType.OK_K, logical_qubit_id=phys_of_pair[i], directionality_flag=1, sequence_number=i,
                                                         purpose_id=key[1], remote_node_id=key[0], bell_state=bells[i])
                                else:
                                    import qlink_interface as q10
                                    named = [q10.BellState[bs.name] for bs in BellState if ctx.truth(ctx.eq(bells[i], bs))][0]     # the 1.0 member of the same NAME
                                    r = q10.ResCreateAndKeep(create_id=0, logical_qubit_id=phys_of_pair[i], directionality_flag=1, sequence_number=i, purpose_id=key[1],
                                                             remote_node_id=key[0], goodness=0, time_of_goodness=0, bell_state=(named if fmt == "1.0" else named.value))
                                ctx.call(ex._handle_epr_response, r)
                drive(ctx, ex, sub, on_wait)
            conn.runner = run
            out = ctx.attempt(P.epr_receive, conn, sock, variant, number, expect, extra)
            ctx.check("program-compiles-and-runs-to-completion", out[0] == "ret" and delivered["n"] == number)
            if out[0] != "ret":
                return
            for i in range(number):
                got = [(m, n, d) for (m, p, n, d) in applied if p == phys_of_pair[i]]
                if not expect:
                    ctx.check(f"pair[{i}]: nothing applied when the expectation is switched off", got == [])
                    continue
                for bs in BellState:
                    if ctx.truth(ctx.eq(bells[i], bs)):
                        want = [(m, 16, 4) for m in CORRECTION[bs]]
                        ctx.check(f"pair[{i}]: exactly the Pauli correction of its own Bell state is applied to its qubit", got == want)
                        break
            if expect:
                # independent of WHICH qubit was hit: the rotations issued are the corrections of the delivered Bell states, in pair order
                want_all = []
                decided = True
                for i in range(number):
                    for bs in BellState:
                        if ctx.truth(ctx.eq(bells[i], bs)):
                            want_all += [(m, 16, 4) for m in CORRECTION[bs]]
                            break
                ctx.check("rotations issued == Pauli corrections of the delivered Bell states in pair order (whatever qubit they hit)",
                          [(m, n, d) for (m, p, n, d) in applied] == want_all)
            others = [(m, p) for (m, p, n, d) in applied if p not in phys_of_pair]
            ctx.check("no-other-qubit-is-rotated", others == [])
        return f

    for variant in ("recv_keep", "recv_keep_with_info", "recv_keep_post", "recv_keep_post_nonseq", "recv_keep_then_post", "recv_post_then_keep", "recv_rsp", "recv_rsp_with_info"):
        for hw in ("generic", "nv"):
            for number in (1, 2, 3, 4):
                for extra in (0, 1):
                    if hw == "nv" and extra + number > 4:
                        continue
                    if hw == "nv" and variant.startswith("recv_rsp"):
                        continue
                    if "then" in variant and number < 2:
                        continue
                    R.add(f"corrections[{variant}, {hw}, {number} pairs, {extra} other live]", kind="lia", samples=12, max_paths=2000,
                          thorough_only=(number >= 3))(mk_corr(variant, hw, number, True, extra))
            R.add(f"no-corrections[{variant}, {hw}, expectation off]", kind="lia", samples=8, max_paths=400)(mk_corr(variant, hw, 2 if (hw == "generic" or "then" in variant) else 1, False, 1))

    for fmt in ("1.0", "1.0 int"):
        for variant, hw in (("recv_keep", "nv"), ("recv_keep_post", "generic")):
            R.add(f"corrections[{variant}, {hw}, 2 pairs, 0 other live, responses in qlink-interface 1.0 format{', Bell state as plain int' if fmt != '1.0' else ''}]",
                  kind="lia", samples=16, max_paths=2000)(mk_corr(variant, hw, 2, True, 0, fmt))

    # ------------------------------------------------------------------ Pauli table (exact)
    def pauli_table(ctx):
        s = cyc.INV_SQRT2
        z = cyc.ZERO
        bell = {BellState.PHI_PLUS: [s, z, z, s], BellState.PHI_MINUS: [s, z, z, -s], BellState.PSI_PLUS: [z, s, s, z], BellState.PSI_MINUS: [z, s, -s, z]}
        ops = {"rot_x": gates.X, "rot_z": gates.Z}
        for bs, vec in bell.items():
            U = cyc.eye(4)
            for m in CORRECTION[bs]:
                U = cyc.matmul(gates.embed_1q(ops[m], 0, 2), U)
            out = [sum((U[r][c] * vec[c] for c in range(4)), cyc.ZERO) for r in range(4)]
            col = [[x] for x in out]
            ref = [[x] for x in bell[BellState.PHI_PLUS]]
            ctx.check(f"P({bs.name}) maps |{bs.name}> to |PHI_PLUS> up to phase", cyc.eq_up_to_phase(col, ref))
        # rotation by pi about X / Z is the Pauli up to phase
        ctx.check("rot_x(16,4) is X up to phase", cyc.eq_up_to_phase(gates.rot("x", gates.half_angle_k(16, 4)), gates.X))
        ctx.check("rot_z(16,4) is Z up to phase", cyc.eq_up_to_phase(gates.rot("z", gates.half_angle_k(16, 4)), gates.Z))
        ctx.check("bell-state-numbering", [b.value for b in BellState] == [0, 1, 2, 3] and BellState.PHI_PLUS.value == 0)
    R.add("pauli-table[exact]", kind="exact", samples=1)(pauli_table)

    # ------------------------------------------------------------------ measure directly: post-processing table
    def measure_table(ctx):
        class Fut:
            def __init__(self, v):
                self.value = v

            def __int__(self):
                return self.value
        anti = {  # Pauli correction anticommutes with the measured axis
            BellState.PHI_PLUS: set(), BellState.PHI_MINUS: {"X", "Y"}, BellState.PSI_PLUS: {"Y", "Z"}, BellState.PSI_MINUS: {"X", "Z"}}
        for raw in (0, 1):
            for bs in BellState:
                for basis in EprMeasBasis:
                    rot = basis_to_rotation(basis)
                    for post in (True, False):
                        r = EprMeasureResult(raw_measurement_outcome=Fut(raw), measurement_basis_local=rot, measurement_basis_remote=rot, post_process=post,
                                             remote_node_id=Fut(1), generation_duration=Fut(0), raw_bell_state=Fut(bs.value))
                        got = ctx.getattr(r, "measurement_outcome")
                        axis = basis.name[-1]
                        want = raw ^ (1 if (post and axis in anti[bs]) else 0)
                        ctx.check(f"outcome[{bs.name},{basis.name},post={post}]", got == want)
    R.add("measure-directly[post-processing table]", kind="table", samples=1)(measure_table)

    def mk_measure_e2e(number, expect, basis="Z"):
        def f(ctx):
            from netqasm.qlink_compat import Basis, LinkLayerOKTypeM
            sock = EPRSocket("Bob")
            conn, ex = make_pipeline(ctx, "Alice", epr_sockets=[sock])
            if ctx.symbolic:
                _install(ctx, ex, False)
            bells = [ctx.enum(f"bell{i}", BellState) for i in range(number)]
            raws = [ctx.int(f"raw{i}", 0, 1) for i in range(number)]

            def run(sub):
                def on_wait(k):
                    if k:
                        return
                    for key, q in table_entries(ex._epr_recv_requests):
                        for i in range(number):
                            ctx.call(ex._handle_epr_response, LinkLayerOKTypeM(type=ReturnType.OK_M, measurement_outcome=raws[i], measurement_basis=Basis[basis], directionality_flag=1,
                                                                              sequence_number=i, purpose_id=key[1], remote_node_id=key[0], bell_state=bells[i]))
                drive(ctx, ex, sub, on_wait)
            conn.runner = run
            res = ctx.call(sock.recv_measure, number=number, expect_phi_plus=expect)
            ctx.call(conn.flush)
            for i in range(number):
                got = ctx.getattr(res[i], "measurement_outcome")
                # both nodes measured in ``basis`` (the link layer reports it with each pair): Phi+ statistics need a flip for the Bell states
                # whose Pauli error anticommutes with that basis
                FLIP = {"Z": (BellState.PSI_PLUS, BellState.PSI_MINUS), "X": (BellState.PHI_MINUS, BellState.PSI_MINUS), "Y": (BellState.PHI_MINUS, BellState.PSI_PLUS)}[basis]
                flip = ctx.or_(ctx.eq(bells[i], FLIP[0]), ctx.eq(bells[i], FLIP[1])) if expect else False
                want_flipped = ctx.sub(1, raws[i])
                ctx.check(f"pair[{i}]: outcome post-processed with ITS OWN Bell state ({basis} basis)" if basis != "Z" else f"pair[{i}]: outcome post-processed with ITS OWN Bell state (Z basis: flipped iff Psi+/-)",
                          ctx.and_(ctx.implies(flip, ctx.eq(got, want_flipped)), ctx.implies(ctx.not_(flip), ctx.eq(got, raws[i]))))
                ctx.check(f"pair[{i}]: raw outcome available unprocessed", ctx.eq(ctx.call(int, res[i].raw_measurement_outcome), raws[i]))
        return f
    def mk_create_measure(number):
        """the CREATOR of measure-directly pairs never post-processes: its outcomes are the raw ones for every Bell state
        (the receiver alone compensates, so that the joint statistics are those of Phi+)"""
        def f(ctx):
            from netqasm.qlink_compat import Basis, LinkLayerOKTypeM
            sock = EPRSocket("Bob")
            conn, ex = make_pipeline(ctx, "Alice", epr_sockets=[sock])
            if ctx.symbolic:
                _install(ctx, ex, False)
            bells = [ctx.enum(f"bell{i}", BellState) for i in range(number)]
            raws = [ctx.int(f"raw{i}", 0, 1) for i in range(number)]
            done = {"n": 0}

            def run(sub):
                def on_wait(k):
                    if done["n"]:
                        return
                    for key, q in table_entries(ex._epr_create_requests):
                        for i in range(number):
                            done["n"] += 1
                            ctx.call(ex._handle_epr_response, LinkLayerOKTypeM(type=ReturnType.OK_M, measurement_outcome=raws[i], measurement_basis=Basis.Z, directionality_flag=0,
                                                                              sequence_number=i, purpose_id=key[1], remote_node_id=key[0], bell_state=bells[i]))
                drive(ctx, ex, sub, on_wait)
            conn.runner = run
            res = ctx.call(sock.create_measure, number=number)
            ctx.call(conn.flush)
            ctx.check("all-responses-delivered", done["n"] == number)
            for i in range(number):
                ctx.check(f"pair[{i}]: the creator's outcome is the raw one whatever the Bell state", ctx.eq(ctx.getattr(res[i], "measurement_outcome"), raws[i]))
        return f
    for number in (1, 2):
        R.add(f"measure-directly[create_measure, {number} pairs]", kind="lia", samples=20, max_paths=4000)(mk_create_measure(number))

    for number in (1, 2, 3):
        R.add(f"measure-directly[recv_measure, {number} pairs]", kind="lia", samples=20, max_paths=4000, thorough_only=(number >= 3))(mk_measure_e2e(number, True))
    R.add("measure-directly[recv_measure, expectation off]", kind="lia", samples=20, max_paths=400)(mk_measure_e2e(2, False))
    for basis in ("X", "Y"):
        R.add(f"measure-directly[recv_measure, pairs measured in the {basis} basis]", kind="lia", samples=20, max_paths=4000)(mk_measure_e2e(1, True, basis))

    def canary(ctx):
        f = mk_corr("recv_keep", "generic", 1, False, 0)
        # with the expectation ON something must be applied for some Bell state: claiming 'never' must be refuted
        b = 5
        sock = EPRSocket("Bob")
        conn, ex = make_pipeline(ctx, "Alice", epr_sockets=[sock], hardware_config=GenericHardwareConfig(b), max_qubits=b)
        if ctx.symbolic:
            _install(ctx, ex, False)
        bell = ctx.enum("bell0", BellState)
        applied = []
        if ctx.symbolic:
            ctx.it.stubs[Executor._do_single_qubit_rotation] = lambda it_, a, k: applied.append(a[1].mnemonic)
        else:
            ex._do_single_qubit_rotation = lambda instr, subroutine_id, address, angle: applied.append(instr.mnemonic)

        def run(sub):
            def on_wait(k):
                for key, q in table_entries(ex._epr_recv_requests):
                    for d in list(q):
                        ctx.call(ex._handle_epr_response, LinkLayerOKTypeK(type=ReturnType.OK_K, logical_qubit_id=7, directionality_flag=1, purpose_id=key[1],
                                                                          remote_node_id=key[0], bell_state=bell))
            drive(ctx, ex, sub, on_wait)
        conn.runner = run
        ctx.call(P.epr_receive, conn, sock, "recv_keep", 1, True, 0)
        ctx.check("no-correction-is-ever-applied", applied == [])
    R.canary("corrections-happen", kind="lia", samples=12)(canary)
    return R
