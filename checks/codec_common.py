"""Shared helpers for the codec properties (C01, C02, C16, C17): instruction classes by
flavour (introspected from the imported repository), the pinned opcode table, and
construction of instruction instances with symbolic / sampled operands."""
from __future__ import annotations

import dataclasses
import json
import os

from netqasm.lang.encoding import RegisterName
from netqasm.lang.instr import flavour as FL
from netqasm.lang.operand import Address, ArrayEntry, ArraySlice, Immediate, Register

HERE = os.path.dirname(os.path.abspath(__file__))
with open(os.path.join(HERE, "..", "specs", "opcode_table.json")) as fh:
    TABLE = json.load(fh)

FLAVOURS = {"vanilla": FL.VanillaFlavour, "nv": FL.NVFlavour, "reids": FL.REIDSFlavour}

I32 = (-2 ** 31, 2 ** 31 - 1)
RANGES = {"imm8": (0, 255), "int32": I32, "addr": I32}


def flavour_classes(fname):
    """classes of a flavour, in declaration order: core list + flavour-specific list"""
    f = FLAVOURS[fname]()
    out = []
    for c in list(FL.CORE_INSTRUCTIONS) + list(f.instrs):
        if c not in out:
            out.append(c)
    return out


def all_classes():
    out = []
    for fn in FLAVOURS:
        for c in flavour_classes(fn):
            if c not in out:
                out.append(c)
    return out


def table_entry(cls, fname=None):
    """pinned (opcode, kinds, shape) for a class, looked up by mnemonic (flavour table first)"""
    m = cls.mnemonic
    if fname and m in TABLE[fname]:
        return TABLE[fname][m]
    mod = cls.__module__.rsplit(".", 1)[-1]
    if mod in TABLE and m in TABLE[mod]:
        return TABLE[mod][m]
    if m in TABLE["core"]:
        return TABLE["core"][m]
    return None


def operand_fields(cls):
    return [f.name for f in dataclasses.fields(cls) if f.name not in ("id", "mnemonic", "lineno")]


def mk_reg(ctx, p):
    return Register(ctx.enum(p + "_bank", RegisterName), ctx.int(p + "_idx", 0, 15))


def mk_operand(ctx, kind, p, in_range=True):
    def rng(k):
        return RANGES[k] if in_range else (None, None)
    if kind == "reg":
        if in_range:
            return mk_reg(ctx, p)
        return Register(ctx.enum(p + "_bank", RegisterName), ctx.int(p + "_idx"))
    if kind in ("imm8", "int32"):
        return Immediate(ctx.int(p, *rng(kind)))
    if kind == "addr":
        return Address(ctx.int(p, *rng("addr")))
    if kind == "entry":
        return ArrayEntry(Address(ctx.int(p + "_addr", *rng("addr"))), mk_operand(ctx, "reg", p + "_i", in_range))
    if kind == "slice":
        return ArraySlice(Address(ctx.int(p + "_addr", *rng("addr"))), mk_operand(ctx, "reg", p + "_s", in_range),
                          mk_operand(ctx, "reg", p + "_e", in_range))
    raise ValueError(kind)


def mk_instr(ctx, cls, kinds, prefix="x", in_range=True):
    names = operand_fields(cls)
    if len(names) != len(kinds):
        raise AssertionError(f"{cls.__name__}: {len(names)} operand fields {names} vs pinned kinds {kinds}")
    kw = {n: mk_operand(ctx, k, f"{prefix}_{n}", in_range) for n, k in zip(names, kinds)}
    return cls(**kw)


def cname(cls):
    return f"{cls.__module__.rsplit('.', 1)[-1]}.{cls.__name__}"
