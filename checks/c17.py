"""C17 -- printed assembly parses back to the same instruction.

Contract per (flavour, instruction class), discharged for ALL in-range operand values by segment-string symbolic
execution of the real printers (``NetQASMInstruction.__str__`` / ``_pretty_print``, operand ``__str__``) and the real
parser (``parse_text_subroutine`` and everything below it):

   roundtrip[f][c]   parse_text_subroutine(PREAMBLE + str(x), flavour=f).instructions == [x]     (same class, equal operands)
   stable[f][c]      text -> Subroutine -> bytes -> Subroutine -> text gives the same text back

``str(n)`` of a symbolic integer is a *hole* (pyvc.segstr): the parser's decisions may depend on literal characters,
on segment boundaries and on the sign of a hole, never on its digits (such a decision is ``Unsupported`` => undecided).
"""
from __future__ import annotations

from netqasm.lang.parsing import binary
from netqasm.lang.parsing.text import parse_text_subroutine
from pyvc.harness import Registry

from netqasm.lang.encoding import RegisterName
from netqasm.lang.operand import Register

from .codec_common import FLAVOURS, cname, flavour_classes, mk_operand, operand_fields, table_entry

LEVEL = "proof"
TECHNIQUE = ("contract-based deductive verification: segment-string symbolic execution of the real printers and the real text parser "
             "(decimal renderings of symbolic integers are holes; decisions on literals/boundaries/signs only), z3 LIA; builtin str/int lemma assumed")

PRE = "# NETQASM 0.0\n# APPID 0\n"


def mk_instr(ctx, cls, kinds, fixed=()):
    """instance with symbolic operands; the banks of the first len(fixed) plain register operands are the given
    concrete ones (case split done by the obligation list instead of by forking, so the cases run in parallel)"""
    names = operand_fields(cls)
    kw, k = {}, 0
    for n, kind in zip(names, kinds):
        if kind == "reg" and k < len(fixed):
            kw[n] = Register(fixed[k], ctx.int(f"x_{n}_idx", 0, 15))
            k += 1
        else:
            kw[n] = mk_operand(ctx, kind, f"x_{n}")
    return cls(**kw)


def _flavour(ctx, fname):
    """the flavour object used for parsing is created FIRST and the other flavours afterwards: 'with that flavour' must not
    depend on which other flavour objects exist in the process"""
    fl = ctx.call(FLAVOURS[fname])
    for other in FLAVOURS:
        if other != fname:
            ctx.call(FLAVOURS[other])
    return fl


def splits(kinds):
    n = sum(1 for k in kinds if k == "reg")
    if n < 4:
        return [()]
    m = n - 2           # leave two register banks symbolic per obligation
    out = [()]
    for _ in range(m):
        out = [o + (b,) for o in out for b in RegisterName]
    return out


def build():
    R = Registry("C17")
    R.explanation = "print -> parse round trip per (flavour, instruction class) over all in-range operand values incl. negative integers; text -> binary -> text stability"
    R.trusted = ["pyvc.segstr (structural string operations over literal pieces and decimal holes)", "dataclass __eq__ model", "C01 (binary round trip) for the stable[] obligations' middle step is NOT assumed: the real codec is executed"]
    R.assumptions = ["for every integer n: str(n) is an optional '-' followed by one or more decimal digits and int(str(n)) == n (builtin lemma; cross-checked natively on samples)",
                     "operands in the encodable range (register index 0..15, immediates per pinned width, addresses/int32 signed 32 bit)"]
    R.dropped = ["docstrings, type annotations, logging calls"]

    for fname in FLAVOURS:
        for c in flavour_classes(fname):
            ent = table_entry(c, fname)
            if ent is None:
                continue
            kinds = ent[1]
            for fixed in splits(kinds):
                tag = "".join(b.name for b in fixed)
                tag = f"[banks {tag}..]" if tag else ""

                def mk_rt(fname=fname, c=c, kinds=kinds, fixed=fixed):
                    def f(ctx):
                        x = mk_instr(ctx, c, kinds, fixed)
                        s = ctx.call(str, x)
                        fl = _flavour(ctx, fname)
                        out = ctx.attempt(parse_text_subroutine, ctx.add(ctx.add(PRE, s), "\n"), flavour=fl)
                        ctx.check("printed-text-is-accepted-by-the-parser", out[0] == "ret")
                        if out[0] != "ret":
                            return
                        ins = ctx.getattr(out[1], "instructions")
                        ctx.check("exactly-one-instruction", ctx.truth(ctx.eq(ctx.len(ins), 1)))
                        y = ctx.index(ins, 0)
                        ctx.check("same-class", type(y) is c)
                        ctx.check("equal-instruction", ctx.eq(y, x))
                    return f
                R.add(f"roundtrip[{fname}][{cname(c)}]{tag}", kind="struct", samples=12)(mk_rt())

                def mk_st(fname=fname, c=c, kinds=kinds, fixed=fixed):
                    def f(ctx):
                        x = mk_instr(ctx, c, kinds, fixed)
                        fl = _flavour(ctx, fname)
                        t1 = ctx.call(str, x)
                        sub1 = ctx.call(parse_text_subroutine, ctx.add(ctx.add(PRE, t1), "\n"), flavour=fl)
                        raw = ctx.call(bytes, sub1)
                        sub2 = ctx.call(binary.deserialize, raw, flavour=fl)
                        ins = ctx.getattr(sub2, "instructions")
                        ctx.check("one-instruction-after-binary", ctx.truth(ctx.eq(ctx.len(ins), 1)))
                        t2 = ctx.call(str, ctx.index(ins, 0))
                        ctx.check("text-binary-text-is-stable", ctx.eq(t2, t1))
                    return f
                R.add(f"stable[{fname}][{cname(c)}]{tag}", kind="struct", samples=6, thorough_only=(fname != "vanilla" and c.__module__.endswith(".core")))(mk_st())


    # printing has no memory: after an operand was changed in place the text is that of the CURRENT instruction
    def mk_reprint(fname, c, kinds):
        def f(ctx):
            names = operand_fields(c)
            x = mk_instr(ctx, c, kinds)
            ctx.call(str, x)
            ctx.getattr(x, "debug_str")
            for n, kind in zip(names, kinds):
                ctx.setattr(x, n, mk_operand(ctx, kind, f"y_{n}"))
            s2 = ctx.call(str, x)
            fl = _flavour(ctx, fname)
            out = ctx.attempt(parse_text_subroutine, ctx.add(ctx.add(PRE, s2), "\n"), flavour=fl)
            ctx.check("text printed after an in-place change is accepted by the parser", out[0] == "ret")
            if out[0] == "ret":
                ins = ctx.getattr(out[1], "instructions")
                ctx.check("text printed after an in-place change parses back to the CURRENT instruction",
                          ctx.truth(ctx.eq(ctx.len(ins), 1)) and ctx.truth(ctx.eq(ctx.index(ins, 0), x)))
        return f
    for fname in FLAVOURS:
        for c in flavour_classes(fname):
            ent = table_entry(c, fname)
            if ent is None or not ent[1] or sum(1 for k in ent[1] if k in ("reg", "entry", "slice")) > 1:
                continue
            if fname != "vanilla" and c.__module__.endswith(".core"):
                continue
            R.add(f"reprint-after-update[{fname}][{cname(c)}]", kind="struct", samples=6)(mk_reprint(fname, c, ent[1]))

    def canary(ctx):
        from netqasm.lang.instr import core
        from netqasm.lang.operand import Immediate, Register
        from netqasm.lang.encoding import RegisterName
        x = core.SetInstruction(reg=Register(RegisterName.R, ctx.int("i", 0, 15)), imm=Immediate(ctx.int("v", -100, 100)))
        s = ctx.call(str, x)
        sub = ctx.call(parse_text_subroutine, ctx.add(ctx.add(PRE, s), "\n"))
        y = ctx.index(ctx.getattr(sub, "instructions"), 0)
        ctx.check("parsed-register-index-is-always-3 (false)", ctx.eq(y.reg.index, 3))
    R.canary("wrong-claim-is-refuted", kind="struct", samples=1)(canary)
    return R
