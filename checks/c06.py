"""C06 -- pre-compiled templated subroutines equal direct compilation.

  from_operands     for every instruction class c and all operand values:  c.from_operands(x.operands) == x
                    (``instantiate`` rebuilds EVERY instruction through it)
  instantiate       instructions'[k] == instructions[k][T -> args[T]], app id set, KeyError iff a template is missing
  equivalence       host program with a template in a rotation angle: compile(); instantiate(v); commit_subroutine()
                    sends the same subroutines and leaves the controller AND the connection in the same state as
                    flush() of the program written with v -- for all v, with and without the NV transpiler, including
                    the flushes that follow (no array re-declared or erased) and operations queued between compile
                    and commit.
"""
from __future__ import annotations

from netqasm.lang.instr import core, vanilla
from netqasm.lang.operand import Immediate, Register, Template
from netqasm.lang.encoding import RegisterName
from netqasm.lang.subroutine import Subroutine
from netqasm.sdk.transpile import NVSubroutineTranspiler
from pyvc.harness import Raised, Registry
from specs import sdk_progs as P

from .c04 import _install
from .codec_common import all_classes, cname, mk_instr, table_entry
from .pipeline import drive, make_pipeline

LEVEL = "proof"
TECHNIQUE = ("contract-based deductive verification: from_operands/instantiate substitution contracts per instruction shape (symbolic operands) and end-to-end "
             "equality of the templated and the direct path through the real SDK/assembler/executor for all template values, z3 LIA")


def _mk(ctx, compiler=None, n_outcomes=3):
    kw = {}
    if compiler is not None:
        kw["compiler"] = compiler
    conn, ex = make_pipeline(ctx, "Alice", **kw)
    if ctx.symbolic:
        _install(ctx, ex, False)
        ctx.it.pow_uf = True        # the executor's angle n*pi/2**d is handed to the (stubbed) processor hook: 2**d uninterpreted
    ex.outcomes = [ctx.int(f"outcome{k}", 0, 1) for k in range(n_outcomes)]
    conn.runner = lambda sub: drive(ctx, ex, sub)
    return conn, ex


def _builder_state(conn):
    mm = conn._builder._mem_mgr
    return dict(arrays_to_return=[(a.address, len(a)) for a in mm._arrays_to_return], registers_to_return=list(mm._registers_to_return),
                used_meas=[r for r, u in mm._used_meas_registers.items() if u], active_registers=set(mm._active_registers),
                pending=len(conn._builder._pending_commands), pre_context=dict(conn._builder._pre_context_commands),
                array_addresses=list(mm._used_array_addresses), active_qubits=[q.qubit_id for q in mm._active_qubits])


def build():
    R = Registry("C06")
    R.explanation = ("substitution contracts of from_operands / instantiate over symbolic operands; end-to-end equality (sent subroutines, controller events, host values, "
                     "connection state) of compile+instantiate+commit vs. flush for all template values, vanilla and NV")
    R.trusted = ["pyvc interpreter / models; processor hooks by contract with symbolic measurement outcomes"]
    R.assumptions = ["templates in rotation numerators (the SDK accepts templates only there)", "template values 0..1000 (beyond the encodable range both paths must still agree: the encoder rejects, C16)"]
    R.dropped = ["docstrings, type annotations, logging calls"]

    for c in all_classes():
        kinds = table_entry(c)[1]

        def mk(c=c, kinds=kinds):
            def f(ctx):
                x = mk_instr(ctx, c, kinds)
                y = ctx.call(c.from_operands, ctx.getattr(x, "operands"))
                ctx.check("from_operands(x.operands) == x", ctx.eq(y, x))
                ctx.check("same-class", type(y) is c)
            return f
        R.add(f"from_operands[{cname(c)}]", kind="lia", samples=15)(mk())

    def instantiate(ctx):
        va = ctx.int("a", 0, 255)
        vb = ctx.int("b", 0, 255)
        app = ctx.int("app_id", 0, 65535)
        r = Register(RegisterName.Q, 0)
        other = mk_instr(ctx, core.SetInstruction, ["reg", "int32"])
        ins = [vanilla.RotXInstruction(reg=r, imm0=Template("a"), imm1=Immediate(ctx.int("d", 0, 255))), other,
               vanilla.RotZInstruction(reg=r, imm0=Template("b"), imm1=Template("a"))]
        sub = ctx.call(Subroutine, instructions=list(ins))
        ctx.check("arguments-discovered", ctx.getattr(sub, "arguments") == ["a", "b", "a"])
        ctx.call(sub.instantiate, app, {"a": va, "b": vb})
        out = ctx.getattr(sub, "instructions")
        ctx.check("app-id-set", ctx.eq(ctx.getattr(sub, "app_id"), app))
        ctx.check("same-length-and-order", len(out) == 3 and type(out[0]) is vanilla.RotXInstruction and type(out[2]) is vanilla.RotZInstruction)
        ctx.check("templates-replaced-by-immediates", all(isinstance(x, Immediate) for x in (out[0].imm0, out[2].imm0, out[2].imm1)))
        if all(isinstance(x, Immediate) for x in (out[0].imm0, out[2].imm0, out[2].imm1)):
            ctx.check("templates-replaced-by-their-values", ctx.and_(ctx.eq(out[0].imm0.value, va), ctx.eq(out[2].imm0.value, vb), ctx.eq(out[2].imm1.value, va)))
        ctx.check("other-operands-unchanged", ctx.and_(ctx.eq(out[0].imm1, ins[0].imm1), ctx.eq(out[0].reg, r), ctx.eq(out[1], other)))
        sub2 = ctx.call(Subroutine, instructions=list(ins))
        res = ctx.attempt(sub2.instantiate, app, {"a": va})
        ctx.check("missing-template-value-is-an-error", res[0] == "exc" and isinstance(res[1], KeyError))
    R.add("instantiate[substitution]", kind="lia", samples=30)(instantiate)

    for flav, comp in (("vanilla", None), ("nv", NVSubroutineTranspiler)):
        for axis in ("X", "Y", "Z"):
            def mk(comp=comp, axis=axis):
                def f(ctx):
                    v = ctx.int("value", 0, 1000)
                    d = ctx.int("d", 0, 255)
                    connA, exA = _mk(ctx, comp)
                    outs = list(exA.outcomes)
                    resA = ctx.call(P.templated_rotation, connA, Template("a"), d, {"a": v}, axis)
                    sentA, evA, stA = list(connA.sent), list(exA.events), _builder_state(connA)
                    connB, exB = _mk(ctx, comp)
                    exB.outcomes = list(outs)
                    resB = ctx.call(P.templated_rotation, connB, v, d, None, axis)
                    ctx.check("same-number-of-subroutines", len(sentA) == len(connB.sent) == 2)
                    for k in range(min(len(sentA), len(connB.sent))):
                        ctx.check(f"subroutine[{k}]-identical", ctx.eq(ctx.getattr(sentA[k], "instructions"), ctx.getattr(connB.sent[k], "instructions")))
                        ctx.check(f"subroutine[{k}]-same-app-id", ctx.eq(ctx.getattr(sentA[k], "app_id"), ctx.getattr(connB.sent[k], "app_id")))
                    from .exec_common import events_eq
                    ctx.check("controller-performs-the-same-gates-and-measurements", events_eq(ctx, evA, list(exB.events)))
                    ctx.check("host-reads-the-same-values", ctx.eq(list(resA), list(resB)))
                    ctx.check("connection-left-in-the-same-state", _builder_state(connA) == _builder_state(connB))
                return f
            R.add(f"equivalence[{flav}, rot_{axis}]", kind="lia", samples=25, max_paths=400)(mk())

    def mk_rounds(comp, rounds):
        def f(ctx):
            v = ctx.int("value", 0, 255)
            d = ctx.int("d", 0, 16)
            connA, exA = _mk(ctx, comp)
            outs = list(exA.outcomes)
            resA = ctx.call(P.templated_rounds_register_measurement, connA, Template("a"), d, {"a": v}, rounds)
            sentA, evA = list(connA.sent), list(exA.events)
            connB, exB = _mk(ctx, comp)
            exB.outcomes = list(outs)
            resB = ctx.call(P.templated_rounds_register_measurement, connB, v, d, None, rounds)
            ctx.check("same-number-of-subroutines", len(sentA) == len(connB.sent) == rounds + 1)
            for k in range(min(len(sentA), len(connB.sent))):
                ctx.check(f"subroutine[{k}]-identical", ctx.eq(ctx.getattr(sentA[k], "instructions"), ctx.getattr(connB.sent[k], "instructions")))
            from .exec_common import events_eq
            ctx.check("controller-performs-the-same-gates-and-measurements", events_eq(ctx, evA, list(exB.events)))
            ctx.check("host-reads-the-same-values", ctx.eq(list(resA), list(resB)))
            ctx.check("connection-left-in-the-same-state", _builder_state(connA) == _builder_state(connB))
        return f
    for flav, comp in (("vanilla", None), ("nv", NVSubroutineTranspiler)):
        R.add(f"equivalence[{flav}, two pre-compiled rounds measuring into registers]", kind="lia", samples=15, max_paths=400)(mk_rounds(comp, 2))

    def flushed_between(ctx):
        v = ctx.int("value", 0, 255)
        connA, exA = _mk(ctx)
        outs = list(exA.outcomes)
        resA = ctx.call(P.compile_flush_other_work_then_commit, connA, Template("a"), 3, {"a": v})
        connB, exB = _mk(ctx)
        exB.outcomes = list(outs)
        resB = ctx.call(P.compile_flush_other_work_then_commit, connB, v, 3, None)
        ctx.check("three-subroutines-each", len(connA.sent) == len(connB.sent) == 3)
        if len(connA.sent) == len(connB.sent) == 3:
            # pre-compiled path: [other work, block, tail]; direct path: [block, other work, tail]
            ctx.check("the pre-compiled block equals the block flushed directly", ctx.eq(ctx.getattr(connA.sent[1], "instructions"), ctx.getattr(connB.sent[0], "instructions")))
            ctx.check("the other work flushed between compile and commit equals the same work flushed after a flush",
                      ctx.eq(ctx.getattr(connA.sent[0], "instructions"), ctx.getattr(connB.sent[1], "instructions")))
            ctx.check("the subroutine flushed afterwards is the same", ctx.eq(ctx.getattr(connA.sent[2], "instructions"), ctx.getattr(connB.sent[2], "instructions")))
        ctx.check("connection-left-in-the-same-state", _builder_state(connA) == _builder_state(connB))
    R.add("equivalence[other work flushed between compile and commit]", kind="lia", samples=25, max_paths=400)(flushed_between)

    def queued(ctx):
        v = ctx.int("value", 0, 255)
        connA, exA = _mk(ctx)
        outs = list(exA.outcomes)
        mA = ctx.call(P.compile_then_queue_then_commit, connA, Template("a"), 4, {"a": v})
        connB, exB = _mk(ctx)
        exB.outcomes = list(outs)
        mB = ctx.call(P.compile_then_queue_then_commit, connB, v, 4, None)
        ctx.check("operations-queued-between-compile-and-commit-survive", len(connA.sent) == len(connB.sent) == 2)
        if len(connA.sent) == len(connB.sent):
            for k in range(len(connA.sent)):
                ctx.check(f"subroutine[{k}]-identical", ctx.eq(ctx.getattr(connA.sent[k], "instructions"), ctx.getattr(connB.sent[k], "instructions")))
        ctx.check("host-reads-the-same-values", ctx.eq(mA, mB))
    R.add("equivalence[operations queued between compile and commit]", kind="lia", samples=25, max_paths=400)(queued)

    def canary(ctx):
        v = ctx.int("value", 0, 255)
        connA, exA = _mk(ctx)
        ctx.call(P.templated_rotation, connA, Template("a"), 1, {"a": v}, "X")
        connB, exB = _mk(ctx)
        ctx.call(P.templated_rotation, connB, 7, 1, None, "X")
        ctx.check("template-value-is-ignored", ctx.eq(ctx.getattr(connA.sent[0], "instructions"), ctx.getattr(connB.sent[0], "instructions")))
    R.canary("template-value-matters", kind="lia", samples=25)(canary)
    return R
