"""C05 -- SDK control flow and classical data flow compile to equivalent subroutines.

End-to-end contract per SDK construct: a small host program using the construct (specs/sdk_progs.py) is run
through the REAL pipeline -- Builder -> assembler -> base Executor, all interpreted -- with its data
(initial array contents, operands, measurement outcomes) SYMBOLIC; the controller's final arrays / registers,
the gate applications it performed and the values the host reads from its handles after each flush are compared
with the direct meaning of the host program (computed here from the construct's documented semantics):

  if_eq/ne/lt/ge (context + callback, int and Future operands), if_ez/if_nz (Future and RegFuture);
  loop / loop_body (start, step, 0..3 iterations), foreach, enumerate, loop_until with an at-most exit condition;
  Future.add / RegFuture.add with and without modulus; arrays with initial values; measurement into arrays,
  futures and registers; nesting (if in loop, loop in if); programs split over several flushes.

Trip counts are concrete (the SDK's loop bounds are Python ints at build time), data values are symbolic, so
each obligation covers all data for its construct and shape.  Composition over arbitrary nesting and flush
placement is by induction on program structure (premises machine-checked here, induction stated).
"""
from __future__ import annotations

import z3

from netqasm.sdk.qubit import Qubit
from pyvc import models as M
from pyvc.harness import Raised, Registry
from pyvc.values import SInt, lift_int, mk_bool, mk_int
from specs import sdk_progs as P

from .c04 import _install
from .pipeline import drive, make_pipeline

LEVEL = "proof"
TECHNIQUE = ("contract-based deductive verification: end-to-end symbolic execution of the real Builder/assembler/Executor on host programs with symbolic data, "
             "postconditions from the constructs' direct semantics, z3 LIA")


def _mk(ctx, n_outcomes=0):
    conn, ex = make_pipeline(ctx, "Alice")
    if ctx.symbolic:
        _install(ctx, ex, False)
    ex.outcomes = [ctx.int(f"outcome{k}", 0, 1) for k in range(n_outcomes)]
    outs = list(ex.outcomes)
    conn.runner = lambda sub: drive(ctx, ex, sub)
    return conn, ex, outs


def _gates(ex, name="x"):
    return [e for e in ex.events if e[0] == "single" and e[1] == name]


def _cond(ctx, kind, a, b):
    return {"eq": ctx.eq(a, b), "ne": ctx.not_(ctx.eq(a, b)), "lt": ctx.lt(a, b), "ge": ctx.ge(a, b)}[kind]


def build():
    R = Registry("C05")
    R.explanation = ("per SDK construct: host program with symbolic data run through the real Builder -> assembler -> Executor; controller effects and "
                     "host-visible handle values compared with the construct's direct meaning")
    R.trusted = ["pyvc interpreter / models (SDK, assembler, executor interpreted); processor hooks by contract with scripted (symbolic) measurement outcomes",
                 "the expected values computed in this file are the 'direct execution' of the host program (documented semantics of the constructs)"]
    R.assumptions = ["loop trip counts concrete (0..3); loop ranges with (stop-start) a non-negative multiple of step (the emitted exit test is equality)",
                     "induction over nesting / flush placement stated, premises (single construct, two nestings, split flushes) machine-checked",
                     "integer data in the signed 32-bit range"]
    R.dropped = ["docstrings, type annotations, logging calls, line tracking"]
    I32 = (-2 ** 31, 2 ** 31 - 1)

    # ---------------------------------------------------------------- conditionals
    for kind in ("eq", "ne", "lt", "ge"):
        for b_future in (False, True):
            def mk(kind=kind, b_future=b_future):
                def f(ctx):
                    a = ctx.int("a", *I32)
                    b = ctx.int("b", *I32)
                    conn, ex, _ = _mk(ctx)
                    arr, q = ctx.call(P.if_binary, conn, kind, a, b, b_future)
                    taken = ctx.truth(_cond(ctx, kind, a, b))
                    xs = _gates(ex)
                    ctx.check("body-executed-iff-condition-holds", len(xs) == (1 if taken else 0))
                    if xs:
                        ctx.check("body-acts-on-its-qubit", ctx.eq(xs[0][2], q.qubit_id))
                    ctx.check("host-reads-operands-back", ctx.and_(ctx.eq(ctx.index(arr, 0), a), ctx.eq(ctx.index(arr, 1), b)))
                return f
            R.add(f"if_{kind}[context, other={'Future' if b_future else 'int'}]", kind="lia", samples=40, max_paths=200)(mk())

        def mkcb(kind=kind):
            def f(ctx):
                a = ctx.int("a", *I32)
                b = ctx.int("b", *I32)
                conn, ex, _ = _mk(ctx)
                arr, q = ctx.call(P.if_binary_callback, conn, kind, a, b)
                taken = ctx.truth(_cond(ctx, kind, a, b))
                ctx.check("body-executed-iff-condition-holds", len(_gates(ex)) == (1 if taken else 0))
            return f
        R.add(f"if_{kind}[callback]", kind="lia", samples=40, max_paths=200)(mkcb())

    for kind in ("ez", "nz"):
        for use_reg in (False, True):
            def mk(kind=kind, use_reg=use_reg):
                def f(ctx):
                    a = ctx.int("a", *I32)
                    conn, ex, _ = _mk(ctx)
                    arr, q = ctx.call(P.if_unary, conn, kind, a, use_reg)
                    taken = ctx.truth(ctx.eq(a, 0)) if kind == "ez" else not ctx.truth(ctx.eq(a, 0))
                    ctx.check("body-executed-iff-condition-holds", len(_gates(ex)) == (1 if taken else 0))
                return f
            R.add(f"if_{kind}[{'RegFuture' if use_reg else 'Future'}]", kind="lia", samples=40, max_paths=200)(mk())

    # ---------------------------------------------------------------- loops
    for (n, start, step) in ((0, 0, 1), (1, 0, 1), (3, 0, 1), (5, 1, 2), (6, 2, 2), (0, 3, -1), (2, 6, -2), (4, 2, 1), (2, 2, -1), (6, 1, 2), (2, 4, 1)):
        def mk(n=n, start=start, step=step):
            def f(ctx):
                idxs = list(range(start, n, step))
                conn, ex, outs = _mk(ctx, n_outcomes=len(idxs))
                outcomes = ctx.call(P.loop_measure, conn, n, start, step)
                ctx.check("body-executed-once-per-index-in-order", len([e for e in ex.events if e[0] == "meas"]) == len(idxs))
                ok = True
                for k, i in enumerate(idxs):
                    ok = ctx.and_(ok, ctx.eq(ctx.index(outcomes, i), outs[k]))
                ctx.check("outcome-of-iteration-i-placed-at-index-i-and-read-by-host", ok)
                untouched = [j for j in range(8) if j not in idxs]
                ctx.check("other-entries-untouched", all(ctx.index(outcomes, j) is None for j in untouched))
                ctx.check("hadamard-before-every-measurement", len(_gates(ex, "h")) == len(idxs))
            return f
        R.add(f"loop[context, range({start},{n},{step})]", kind="lia", samples=20, max_paths=300)(mk())

    def loop_body(ctx):
        n = 3
        conn, ex, outs = _mk(ctx, n_outcomes=n)
        outcomes = ctx.call(P.loop_body_measure, conn, n)
        ctx.check("outcome-of-iteration-i-placed-at-index-i-and-read-by-host", ctx.and_(*[ctx.eq(ctx.index(outcomes, i), outs[i]) for i in range(n)]))
    R.add("loop_body[callback, 3 iterations]", kind="lia", samples=20, max_paths=300)(loop_body)

    def foreach(ctx):
        vals = [ctx.int(f"v{i}", *I32) for i in range(3)]
        k = ctx.int("k", -1000, 1000)
        conn, ex, _ = _mk(ctx)
        arr = ctx.call(P.foreach_add, conn, vals, k)
        ctx.check("every-element-updated-once", ctx.and_(*[ctx.eq(ctx.index(arr, i), ctx.add(vals[i], k)) for i in range(3)]))
    R.add("foreach[add constant]", kind="lia", samples=30, max_paths=300)(foreach)

    def enumerate_(ctx):
        vals = [ctx.int(f"v{i}", -10 ** 6, 10 ** 6) for i in range(3)]
        conn, ex, _ = _mk(ctx)
        src, dst = ctx.call(P.enumerate_copy, conn, vals)
        ctx.check("dst[i] == src[i] + i", ctx.and_(*[ctx.eq(ctx.index(dst, i), ctx.add(vals[i], i)) for i in range(3)]))
        ctx.check("source-unchanged", ctx.and_(*[ctx.eq(ctx.index(src, i), vals[i]) for i in range(3)]))
    R.add("enumerate[index and value]", kind="lia", samples=30, max_paths=300)(enumerate_)

    for max_iter in (1, 3):
        def mk(max_iter=max_iter):
            def f(ctx):
                bound = ctx.choice("bound", [0, 1, -1])
                conn, ex, outs = _mk(ctx, n_outcomes=max_iter)
                res, count = ctx.call(P.loop_until_measure, conn, max_iter, bound)
                # direct meaning: iterate until the measured value is at most ``bound`` (or max_iter iterations)
                iters = max_iter
                for j in range(max_iter):
                    if ctx.truth(ctx.le(outs[j], bound)):
                        iters = j + 1
                        break
                ctx.check("number-of-iterations: stops after the first iteration whose value is at most the bound", ctx.eq(ctx.index(count, 0), iters))
                ctx.check("last-measured-value-visible", ctx.eq(ctx.index(res, 0), outs[iters - 1]))
            return f
        R.add(f"loop_until[at most, max {max_iter}]", kind="lia", samples=40, max_paths=400)(mk())

    # ---------------------------------------------------------------- arithmetic on futures
    for b_future in (False, True):
        for mod in (None, "m"):
            def mk(b_future=b_future, mod=mod):
                def f(ctx):
                    a = ctx.int("a", -10 ** 6, 10 ** 6)
                    b = ctx.int("b", -10 ** 6, 10 ** 6)
                    m = ctx.int("mod", 1, 1000) if mod else None
                    conn, ex, _ = _mk(ctx)
                    arr = ctx.call(P.future_add, conn, a, b, m, b_future)
                    want = ctx.add(a, b) if m is None else ctx.mod(ctx.add(a, b), m)
                    ctx.check("x := x + y (mod m)", ctx.eq(ctx.index(arr, 0), want))
                    ctx.check("other-operand-unchanged", ctx.eq(ctx.index(arr, 1), b))
                return f
            R.add(f"Future.add[other={'Future' if b_future else 'int'}{', mod' if mod else ''}]", kind="lia", samples=40, max_paths=200)(mk())

    def mk_add_variant(variant):
        def f(ctx):
            a = ctx.int("a", -10 ** 6, 10 ** 6)
            b = ctx.int("b", -10 ** 6, 10 ** 6)
            i = ctx.choice("i", [0, 1])
            conn, ex, _ = _mk(ctx)
            arr = ctx.call(P.future_add_variants, conn, a, b, i, variant)
            want = [a, b, i, 1]
            if variant in ("same handle", "second handle of the same entry"):
                want[0] = ctx.add(a, a)
            elif variant == "RegFuture operand":
                want[0] = ctx.add(a, b)
            elif variant == "Future-indexed target":
                want[i] = ctx.add(want[i], 7)
            else:
                want[i] = ctx.add(want[i], want[1])
            ctx.check("the array holds the direct-execution result (target updated, everything else unchanged)",
                      ctx.and_(*[ctx.eq(ctx.index(arr, k), want[k]) for k in range(4)]))
        return f
    for variant in ("same handle", "second handle of the same entry", "RegFuture operand", "Future-indexed target", "Future-indexed target and operand"):
        R.add(f"Future.add[{variant}]", kind="lia", samples=40, max_paths=200)(mk_add_variant(variant))

    for mod in (None, "m"):
        def mk(mod=mod):
            def f(ctx):
                a = ctx.int("a", -10 ** 6, 10 ** 6)
                b = ctx.int("b", -10 ** 6, 10 ** 6)
                m = ctx.int("mod", 1, 1000) if mod else None
                conn, ex, _ = _mk(ctx)
                r = ctx.call(P.regfuture_add, conn, a, b, m)
                want = ctx.add(a, b) if m is None else ctx.mod(ctx.add(a, b), m)
                ctx.check("register := register + y (mod m), read by host", ctx.eq(ctx.call(int, r), want))
            return f
        R.add(f"RegFuture.add[int{', mod' if mod else ''}]", kind="lia", samples=40, max_paths=200)(mk())

    # ---------------------------------------------------------------- arrays and measurements
    def array_init(ctx):
        shape = ctx.choice("shape", ["distinct", "all-equal", "with-undefined"])
        if shape == "all-equal":
            v = ctx.int("v", *I32)
            vals = [v, v, v]
        elif shape == "with-undefined":
            vals = [ctx.int("v0", *I32), None, ctx.int("v2", *I32)]
        else:
            vals = [ctx.int(f"v{i}", *I32) for i in range(3)]
        conn, ex, _ = _mk(ctx)
        arr = ctx.call(P.array_init, conn, vals)
        ok = True
        for i in range(3):
            got = ctx.index(arr, i)
            ok = ctx.and_(ok, (got is None) if vals[i] is None else ctx.eq(got, vals[i]))
        ctx.check("host-reads-initial-values (undefined stays undefined)", ok)
    R.add("array[initial values]", kind="lia", samples=40, max_paths=300)(array_init)

    def measure_kinds(ctx):
        conn, ex, outs = _mk(ctx, n_outcomes=3)
        m0, m1, tgt = ctx.call(P.measure_kinds, conn)
        ctx.check("measure()-future-holds-outcome", ctx.eq(ctx.call(int, m0), outs[0]))
        ctx.check("measure(store_array=False)-register-holds-outcome", ctx.eq(ctx.call(int, m1), outs[1]))
        ctx.check("measure(future=...)-places-outcome-at-that-entry", ctx.eq(ctx.index(tgt, 2), outs[2]))
        ctx.check("three-measurements-on-three-qubits", [e[1] for e in ex.events if e[0] == "meas"] == [0, 1, 2])
    R.add("measure[array, register, given future]", kind="lia", samples=20, max_paths=100)(measure_kinds)

    def two_regs(ctx):
        conn, ex, outs = _mk(ctx, n_outcomes=2)
        m0, m1 = ctx.call(P.two_register_measurements, conn)
        ctx.check("first-register-outcome-not-overwritten", ctx.eq(ctx.call(int, m0), outs[0]))
        ctx.check("second-register-outcome", ctx.eq(ctx.call(int, m1), outs[1]))
        ctx.check("branch-on-first-outcome", len(_gates(ex)) == (1 if ctx.truth(ctx.eq(outs[0], 1)) else 0))
    R.add("measure[two register outcomes live together]", kind="lia", samples=20, max_paths=100)(two_regs)

    # ---------------------------------------------------------------- nesting and split flushes
    def nested1(ctx):
        vals = [ctx.int(f"v{i}", -5, 5) for i in range(3)]
        k = ctx.int("k", -5, 5)
        conn, ex, _ = _mk(ctx)
        arr, cnt = ctx.call(P.nested_if_in_loop, conn, vals, k)
        want = 0
        for v in vals:
            if ctx.truth(ctx.eq(v, k)):
                want += 1
        ctx.check("count-of-matching-elements", ctx.eq(ctx.index(cnt, 0), want))
    R.add("nesting[if inside foreach]", kind="lia", samples=40, max_paths=400)(nested1)

    def nested2(ctx):
        a = ctx.int("a", -5, 5)
        n = ctx.choice("n", [0, 2, 3])
        conn, ex, _ = _mk(ctx)
        cnt = ctx.call(P.nested_loop_in_if, conn, a, n)
        want = 0 if ctx.truth(ctx.eq(a, 0)) else 2 * n
        ctx.check("loop-runs-n-times-iff-condition", ctx.eq(ctx.index(cnt, 0), want))
    R.add("nesting[loop inside if]", kind="lia", samples=40, max_paths=400)(nested2)

    def split(ctx):
        a = ctx.int("a", -10 ** 6, 10 ** 6)
        conn, ex, outs = _mk(ctx, n_outcomes=1)
        first, second, third = ctx.call(P.split_flush, conn, a)
        ctx.check("after-flush-1: host reads initial values", ctx.and_(ctx.eq(first[0], a), ctx.eq(first[1], 0)))
        ctx.check("after-flush-2: host sees the update made by the second subroutine", ctx.and_(ctx.eq(second[0], ctx.add(a, 5)), ctx.eq(second[1], outs[0])))
        ctx.check("after-flush-3: host sees the third update; the array is not re-declared", ctx.and_(ctx.eq(third[0], ctx.add(a, 6)), ctx.eq(third[1], outs[0])))
        ctx.check("three-subroutines-committed", len(conn.sent) == 3)
    R.add("flush[program split over three flushes]", kind="lia", samples=30, max_paths=200)(split)

    def mk_same_future(flush_between):
        def f(ctx):
            a, c1, c2 = ctx.int("a", -100, 100), ctx.int("c1", -100, 100), ctx.int("c2", -100, 100)
            conn, ex, _ = _mk(ctx)
            arr, q = ctx.call(P.same_future_in_two_conditions, conn, a, c1, c2, flush_between)
            want = (["x"] if ctx.truth(ctx.eq(a, c1)) else []) + (["y"] if ctx.truth(ctx.not_(ctx.eq(a, c2))) else []) + (["z"] if ctx.truth(ctx.lt(a, c2)) else [])
            got = [e[1] for e in ex.events if e[0] == "single" and e[1] in ("x", "y", "z")]
            ctx.check("every condition on the re-used handle is evaluated on the entry's value", got == want)
            ctx.check("host-reads-the-array-back", ctx.and_(ctx.eq(ctx.index(arr, 0), a), ctx.eq(ctx.index(arr, 1), 7)))
        return f
    for fb in (False, True):
        R.add(f"if[one Future handle in three conditions{', flush in between' if fb else ''}]", kind="lia", samples=40, max_paths=400)(mk_same_future(fb))

    def stale_handle(ctx):
        a, b, c = ctx.int("a", -100, 100), ctx.int("b", -100, 100), ctx.int("c", -100, 100)
        conn, ex, _ = _mk(ctx)
        seen, arr = ctx.call(P.handle_read_by_host_then_changed_then_tested, conn, a, b, c)
        now = ctx.add(a, b)
        want = (["x"] if ctx.truth(ctx.eq(now, c)) else []) + (["z"] if ctx.truth(ctx.lt(now, c)) else [])
        got = [e[1] for e in ex.events if e[0] == "single" and e[1] in ("x", "z")]
        ctx.check("host-read-after-the-first-flush", ctx.eq(seen, a))
        ctx.check("conditions on a handle the Host has read are evaluated on the entry's CURRENT value", got == want)
        ctx.check("host-reads-the-updated-array-back", ctx.and_(ctx.eq(ctx.index(arr, 0), now), ctx.eq(ctx.index(arr, 1), 7)))
    R.add("if[handle read by the Host, entry changed by a later subroutine, then tested]", kind="lia", samples=40, max_paths=400)(stale_handle)

    def arrays_flush(ctx):
        a, b = ctx.int("a", -10 ** 6, 10 ** 6), ctx.int("b", -10 ** 6, 10 ** 6)
        conn, ex, _ = _mk(ctx)
        first, second, third = ctx.call(P.arrays_on_both_sides_of_a_flush, conn, a, b)
        ctx.check("array allocated before the flushes keeps its identity and gets both updates", ctx.and_(ctx.eq(first[0], ctx.add(a, 10)), ctx.eq(first[1], 101)))
        ctx.check("array allocated after the first flush is a different array", ctx.and_(ctx.eq(second[0], ctx.add(b, 20)), ctx.eq(second[1], 2), ctx.eq(second[2], 3)))
        ctx.check("array allocated after the second flush is a different array", ctx.eq(third[0], 5))
    R.add("flush[arrays allocated on both sides of a flush stay distinct]", kind="lia", samples=30, max_paths=200)(arrays_flush)

    def canary(ctx):
        a = ctx.int("a", *I32)
        b = ctx.int("b", *I32)
        conn, ex, _ = _mk(ctx)
        arr, q = ctx.call(P.if_binary, conn, "lt", a, b, False)
        taken = ctx.truth(ctx.le(a, b))
        ctx.check("if_lt-behaves-like-le", len(_gates(ex)) == (1 if taken else 0))
    R.canary("lt-is-strict", kind="lia", samples=40, max_paths=200)(canary)
    return R
