"""C19 -- float angles are approximated within tolerance by encodable rotations.

Function under contract: ``toolbox.state_prep.get_angle_spec_from_float`` (and the builder loop
that turns each step into one rotation instruction with the same axis and operands).

Contract, over the reals (floats treated as mathematical reals -- stated assumption):

    requires  1e-9 <= tol <= 1
    ensures   every step (n, d) has 0 <= n <= 255 and 0 <= d <= 255, and
              0 <= (angle mod 2 pi) - sum n*pi/2**d <= tol

proved with loop contracts on the real loops (havoc - assume invariant - run the real body
once - assert invariant), the list of steps being abstracted by the ghost structure
``AbsPairs`` (running sum + an invariant every element satisfies):

  loop 0 (greedy while)   Inv: rest >= 0, S >= 0, rest + S == a/pi;  every appended (n, d) has
                          127 <= n <= 255, n < 2*2**d, d <= 39 (from tol >= 1e-9);  variant rest' * 127 <= rest
  loop 1 (simplify for)   per element: n'/2**d' == n/2**d, 1 <= n' <= 255, 0 <= d' <= d
  comprehension 0         the final filter keeps every element (otherwise the sum changes)

2**d is an uninterpreted function with instantiated defining facts; floor and log2 by their
defining inequalities.  IEEE rounding is *not* modelled: a seeded native sweep over
boundary-dense floats stands in for it, reported as bounded.
"""
from __future__ import annotations

import math

import numpy as np
import z3

from netqasm.sdk.toolbox import state_prep as SP
from pyvc import interp as I
from pyvc import models as M
from pyvc.harness import Registry
from pyvc.values import SInt, SReal, lift_int, lift_real, mk_bool

LEVEL = "proof"
TECHNIQUE = ("contract-based deductive verification: loop invariants on the real greedy-expansion loops (havoc/assume/body/assert), "
             "VCs over the reals with 2**d uninterpreted + instantiated facts, discharged by z3 NRA; seeded native float sweep as bounded stand-in for IEEE rounding")

QUAL = "netqasm.sdk.toolbox.state_prep.get_angle_spec_from_float"
PI = np.pi


class AbsPairs:
    """ghost abstraction of the list of (n, d) steps: ``sum`` = sum n/2**d (Real term), every element satisfies ``inv``"""
    _pyvc_ghost = True

    def __init__(self, ctx, sum_term, inv_name):
        self.ctx = ctx
        self.sum = sum_term
        self.inv_name = inv_name
        self.generic = None

    def append(self, pair):
        ctx = self.ctx
        n, d = pair
        nt, dt = lift_int(n), lift_int(d)
        P = M.POW2(dt)
        M.pow2_facts(ctx.it, dt)
        ctx.check("loop0/appended-step: 127 <= n <= 255", mk_bool(z3.And(nt >= 127, nt <= 255)))
        ctx.check("loop0/appended-step: n < 2*2**d (d is large enough for every halving)", mk_bool(z3.ToReal(nt) < 2 * P))
        ctx.check("loop0/appended-step: 0 <= d <= 39 given tol >= 1e-9", mk_bool(z3.And(dt >= 0, dt <= 39)))
        self.sum = self.sum + z3.ToReal(nt) / P

    def __setitem__(self, i, pair):
        ctx = self.ctx
        g = self.generic
        if g is None:
            raise AssertionError("store outside the simplify loop")
        gi, gn, gd = g
        n2, d2 = pair
        n2t, d2t = lift_int(n2), lift_int(d2)
        M.pow2_facts(ctx.it, d2t)
        ctx.check("loop1/store-at-own-index", mk_bool(lift_int(i) == gi))
        ctx.check("loop1/value-preserved: n'/2**d' == n/2**d", mk_bool(z3.ToReal(n2t) * M.POW2(gd) == z3.ToReal(gn) * M.POW2(d2t)))
        ctx.check("loop1/encodable: 1 <= n' <= 255 and 0 <= d' <= 255", mk_bool(z3.And(n2t >= 1, n2t <= 255, d2t >= 0, d2t <= 255)))
        self.stored = (n2t, d2t)


def build():
    R = Registry("C19")
    R.explanation = ("loop-invariant proof of get_angle_spec_from_float over the reals (any angle, tol in [1e-9, 1]): steps encodable, "
                     "sum within tol of angle mod 2pi; builder emits one rotation per step; float sweep bounded")
    R.trusted = [
        "floats treated as mathematical reals (machine arithmetic treated as mathematical); np.pi is the double nearest pi on both sides of the contract",
        "np.floor / np.log2 by their defining inequalities; 2**d uninterpreted with instantiated facts (exact table on -2..41, positivity, doubling, monotone bounds)",
        "x % m for reals: unique r in [0, m) with x = k*m + r",
        "z3 nonlinear real arithmetic",
    ]
    R.assumptions = ["tolerance in [1e-9, 1] (the statement: 'all tolerances down to 1e-9')",
                     "termination is argued by the proved variant rest' * 127 <= rest over the reals; not claimed under IEEE rounding",
                     "IEEE-754 rounding effects only through the bounded native sweep (coverage.bounded)"]
    R.dropped = ["docstrings, type annotations, the assertion message string"]

    def sym_contract(ctx):
        it = ctx.it
        it.pow_uf = True
        M.EXTRA_CALLS[np.floor] = M.np_floor
        M.EXTRA_CALLS[np.log2] = M.np_log2
        M.EXTRA_CALLS[np.round] = M.np_round
        M.EXTRA_CALLS[round] = M.np_round
        M.EXTRA_CALLS[np.fmod] = M.real_fmod
        M.EXTRA_CALLS[math.fmod] = M.real_fmod
        angle = ctx.real("angle")
        tol = ctx.real("tol", 1e-9, 1.0)
        st = {}

        def roles(stn):
            """which local is the remainder and which the step list, read off the loop itself (so that renaming locals is harmless):
            remainder = the name in the loop test that the body assigns; step list = the name whose .append is called in the body"""
            import ast as _ast
            assigned = {t.id for n in _ast.walk(_ast.Module(body=stn.body, type_ignores=[])) if isinstance(n, (_ast.Assign, _ast.AugAssign))
                        for t in (n.targets if isinstance(n, _ast.Assign) else [n.target]) if isinstance(t, _ast.Name)}
            rest_name = next((n.id for n in _ast.walk(stn.test) if isinstance(n, _ast.Name) and n.id in assigned), "rest")
            nds_name = next((n.func.value.id for n in _ast.walk(_ast.Module(body=stn.body, type_ignores=[])) if isinstance(n, _ast.Call)
                             and isinstance(n.func, _ast.Attribute) and n.func.attr == "append" and isinstance(n.func.value, _ast.Name)), "nds")
            return rest_name, nds_name

        def while0(it_, stn, sc):
            REST, NDS = roles(stn)
            st["names"] = (REST, NDS)
            nds0 = sc.lookup(NDS)
            rest0 = sc.lookup(REST)
            ctx.check("loop0/entry: list of steps starts empty", isinstance(nds0, list) and nds0 == [])
            A = lift_real(rest0)
            st["A"] = A
            mods = it_.notes.get("real_mod_calls", [])
            two_pi = lift_real(2 * PI)
            ok = len(mods) == 1 and z3.eq(mods[0][0], angle.t) and z3.eq(z3.simplify(mods[0][1]), z3.simplify(two_pi))
            ctx.check("pre-loop/angle reduced modulo 2pi exactly once", ok)
            if ok:
                ctx.check("pre-loop/rest == (angle mod 2pi)/pi", mk_bool(A * lift_real(PI) == mods[0][2]))
            ctx.check("loop0/inv-init: rest >= 0", mk_bool(A >= 0))
            ctx.check("loop0/inv-init: rest < 2", mk_bool(A < 2))
            rest = z3.Real("rest!k")
            S = z3.Real("S!k")
            it_.pc.append(z3.And(rest >= 0, S >= 0, rest + S == A))
            nds = AbsPairs(ctx, S, "inv1")
            sc.vars[REST] = SReal(rest)
            sc.vars[NDS] = nds
            if it_.truth(it_.ev(stn.test, sc)):
                ctx.cover("loop0/iteration")
                it_.exec_block(stn.body, sc)
                r2 = lift_real(sc.lookup(REST))
                ctx.check("loop0/inv-preserved: rest' >= 0", mk_bool(r2 >= 0))
                ctx.check("loop0/inv-preserved: rest' + S' == a/pi", mk_bool(r2 + nds.sum == A))
                ctx.check("loop0/inv-preserved: S' >= 0", mk_bool(nds.sum >= 0))
                ctx.check("loop0/variant: rest' * 127 <= rest", mk_bool(r2 * 127 <= rest))
                ctx.check("loop0/same-list-object", sc.lookup(NDS) is nds)
                raise I.PathAbort()
            ctx.cover("loop0/exit")
            st["exit_rest"] = rest
            st["nds"] = nds

        def for1(it_, stn, sc):
            nds = it_.ev(stn.iter.args[0], sc) if (hasattr(stn.iter, "args") and stn.iter.args) else sc.lookup(st.get("names", ("rest", "nds"))[1])
            ctx.check("loop1/iterates-the-step-list", nds is st.get("nds"))
            n = z3.Int("n!g")
            d = z3.Int("d!g")
            i = z3.Int("i!g")
            M.pow2_facts(it_, d)
            it_.pc.append(z3.And(i >= 0, n >= 127, n <= 255, z3.ToReal(n) < 2 * M.POW2(d), d >= 0, d <= 39))
            nds.generic = (i, n, d)
            it_.assign(stn.target, (SInt(i), (SInt(n), SInt(d))), sc)
            nds.stored = None
            it_.exec_block(stn.body, sc)
            ctx.check("loop1/element-written-back", nds.stored is not None)
            nds.generic = None
            st["g2"] = nds.stored

        def comp0(it_, e, sc):
            g = e.generators[0]
            nds = it_.ev(g.iter, sc)
            ctx.check("comp0/filters-the-step-list", nds is st.get("nds"))
            n2, d2 = st["g2"]
            s = I.Scope(sc)
            it_.assign(g.target, (SInt(n2) if not z3.is_int_value(n2) else n2.as_long(), SInt(d2) if not z3.is_int_value(d2) else d2.as_long()), s)
            keep = True
            for c in g.ifs:
                keep = ctx.and_(keep, mk_bool(M.lift(it_.ev(c, s))) if not isinstance(it_.ev(c, s), bool) else it_.ev(c, s))
            ctx.check("comp0/no-step-dropped (a dropped step would change the sum)", keep)
            el = it_.ev(e.elt, s)
            ctx.check("comp0/element-unchanged", ctx.and_(ctx.eq(el[0], mk(n2)), ctx.eq(el[1], mk(d2))))
            return nds

        def mk(t):
            return t.as_long() if z3.is_int_value(t) else SInt(t)

        it.loop_contracts[(QUAL, 0)] = while0
        it.loop_contracts[(QUAL, 1)] = for1
        it.comp_contracts[(QUAL, 0)] = comp0
        out = ctx.call(SP.get_angle_spec_from_float, angle, tol)
        ctx.check("post/returns-the-step-list", out is st.get("nds"))
        A = st["A"]
        err = (A - out.sum) * lift_real(PI)
        ctx.check("post/sum-within-tolerance: 0 <= a - sum <= tol", mk_bool(z3.And(err >= 0, err <= tol.t)))
    R.add("get_angle_spec_from_float[contract]", kind="nra", samples=0, inductive=True, timeout_ms=60000,
          fuc=[QUAL])(_sym_only(sym_contract))

    # bounded stand-in for IEEE rounding: native sweep over boundary-dense floats
    def native_sweep(ctx):
        cls = ctx.choice("class", ["tiny+", "tiny-", "near-2pi", "dyadic", "wide", "small", "multiples"])
        tol = ctx.choice("tol", [1e-4, 1e-4, 1e-5, 1e-6, 1e-7, 1e-8, 1e-9, 1e-3, 3e-9])
        u = ctx.real("u", 0.0, 1.0)
        j = ctx.int("j", 0, 40)
        if cls == "tiny+":
            angle = [0.0, 1e-300, 1e-20, 1e-12, tol * 0.999, tol, tol * 1.001, tol * math.pi, tol * 3.1, tol * 3.2, 10 * tol * u][j % 11]
        elif cls == "tiny-":
            angle = -[5e-324, 1e-300, 1e-20, 1e-17, 1e-16, 4e-16, 1e-12, tol * 0.5, tol, tol * 3.1, 10 * tol * u][j % 11]
        elif cls == "near-2pi":
            angle = 2 * math.pi * [1, 2, -1, 3][j % 4] + [0.0, 1e-16, -1e-16, 4e-16, -4e-16, tol / 2, -tol / 2, tol * 3, -tol * 3, u * 1e-3][j % 10]
        elif cls == "dyadic":
            angle = math.pi * (j % 17 - 8) / 2 ** (j % 9) + [0.0, 1e-16, -1e-16][j % 3]
        elif cls == "small":
            angle = u * 1e-3
        elif cls == "multiples":
            angle = (j - 20) * math.pi / 3 + u * 1e-6
        else:
            angle = (u - 0.5) * 200.0
        res = ctx.attempt(SP.get_angle_spec_from_float, angle, tol)
        ctx.check("returns-normally", res[0] == "ret")
        if res[0] != "ret":
            return
        nds = res[1]
        ctx.check("steps-encodable: ints with 0 <= n <= 255 and 0 <= d <= 255",
                  all(isinstance(n, int) and isinstance(d, int) and 0 <= n <= 255 and 0 <= d <= 255 for n, d in nds))
        if not all(isinstance(d, int) and 0 <= d <= 255 for n, d in nds):
            return
        import fractions
        total = sum(fractions.Fraction(n, 2 ** d) for n, d in nds)
        a = angle % (2 * math.pi)
        e = abs(float(total) * math.pi - a)
        e = min(e, abs(e - 2 * math.pi))
        ctx.check("sum-within-tolerance (mod 2pi, slack 1e-12 for float evaluation of the check itself)", e <= tol * (1 + 1e-9) + 1e-12)
    R.add("get_angle_spec_from_float[float-sweep]", kind="bounded", bounded_only=True, samples=1500,
          note="bounded: seeded sweep over boundary-dense doubles (7 classes: tiny +/-, near multiples of 2pi, dyadic multiples of pi, wide, small, multiples of pi/3) x 9 tolerances in [1e-9, 1e-3]")(native_sweep)

    # builder: one rotation instruction per step, same axis, operands (n, d) unchanged
    def builder_steps(ctx):
        from netqasm.lang.ir import GenericInstr
        from netqasm.sdk.connection import DebugConnection
        from netqasm.sdk.qubit import Qubit
        from netqasm.sdk.shared_memory import SharedMemoryManager
        ax = ctx.choice("axis", ["rot_X", "rot_Y", "rot_Z"])
        u = ctx.real("u", -10.0, 10.0)
        ty = ctx.choice("float-type", [float, np.float64, np.float32])
        angle = ty(u)
        SharedMemoryManager.reset_memories()
        DebugConnection.node_ids = {"Alice": 0}
        conn = DebugConnection("Alice")
        q = Qubit(conn)
        before = len(conn._builder._pending_commands)
        getattr(q, ax)(angle=angle)
        cmds = conn._builder._pending_commands[before:]
        rots = [c for c in cmds if getattr(c, "instruction", None) in (GenericInstr.ROT_X, GenericInstr.ROT_Y, GenericInstr.ROT_Z)]
        want = SP.get_angle_spec_from_float(angle)
        gi = {"rot_X": GenericInstr.ROT_X, "rot_Y": GenericInstr.ROT_Y, "rot_Z": GenericInstr.ROT_Z}[ax]
        ctx.check("one-rotation-per-step-same-axis-same-operands",
                  [(c.instruction, c.operands[1], c.operands[2]) for c in rots] == [(gi, n, d) for n, d in want])
        conn._builder._pending_commands = []
        q._active = False
    R.add("builder[one-rotation-per-step]", kind="bounded", bounded_only=True, samples=60,
          note="bounded: 60 sampled angles x 3 axes x {float, np.float64, np.float32} through Qubit.rot_*(angle=...) (the builder loop is a plain for over the proved step list)")(builder_steps)

    # builder, modular: a rotation by a float angle emits exactly the steps get_angle_spec_from_float returns FOR THAT ANGLE,
    # whatever was rotated before on the same connection (callee replaced by its contract: some list of encodable steps)
    def builder_history(ctx):
        from netqasm.lang.ir import GenericInstr
        from netqasm.sdk.connection import DebugConnection
        from netqasm.sdk.qubit import Qubit
        from netqasm.sdk.shared_memory import SharedMemoryManager
        from netqasm.sdk import builder as B
        ax1 = ctx.choice("axis1", ["rot_X", "rot_Y", "rot_Z"])
        ax2 = ctx.choice("axis2", ["rot_X", "rot_Y", "rot_Z"])
        a1 = ctx.real("angle1", -10.0, 10.0)
        if ctx.symbolic:
            a2 = ctx.real("angle2", -10.0, 10.0)
        else:
            a2 = a1 + ctx.real("delta", -2e-4, 2e-4)        # nearby angles: the interesting histories
        calls = []
        if ctx.symbolic:
            def spec_stub(it_, a, k):
                i = len(calls)
                steps = [(ctx.int(f"n{i}_{j}", 0, 255), ctx.int(f"d{i}_{j}", 0, 255)) for j in range(2)]
                calls.append((a[0] if a else k.get("angle"), steps))
                return list(steps)
            ctx.it.stubs[B.get_angle_spec_from_float] = spec_stub
            ctx.it.stubs[SP.get_angle_spec_from_float] = spec_stub
        from .sdk_common import fresh_conn
        conn = fresh_conn("Alice")
        q = Qubit(conn)
        gi = {"rot_X": GenericInstr.ROT_X, "rot_Y": GenericInstr.ROT_Y, "rot_Z": GenericInstr.ROT_Z}
        for i, (ax, a) in enumerate(((ax1, a1), (ax2, a2))):
            before = len(conn._builder._pending_commands)
            ctx.call(getattr(q, ax), angle=a)
            rots = [c for c in conn._builder._pending_commands[before:] if getattr(c, "instruction", None) in gi.values()]
            if ctx.symbolic:
                ctx.check(f"rotation {i + 1}: the decomposition is computed for THIS angle", len(calls) == i + 1 and ctx.truth(ctx.eq(calls[i][0], a)))
                want = calls[i][1] if len(calls) == i + 1 else None
            else:
                want = SP.get_angle_spec_from_float(a)
            ctx.check(f"rotation {i + 1}: one instruction per step, same axis, same operands, nothing from earlier rotations",
                      want is not None and len(rots) == len(want) and all(c.instruction is gi[ax] and ctx.truth(ctx.eq(c.operands[1], n)) and ctx.truth(ctx.eq(c.operands[2], d))
                                                                          for c, (n, d) in zip(rots, want)))
        conn._builder._pending_commands = []
        q._active = False
    R.add("builder[each rotation uses the decomposition of its own angle, whatever came before]", kind="lia", samples=300, max_paths=200)(builder_history)

    def canary(ctx):
        it = ctx.it
        it.pow_uf = True
        M.EXTRA_CALLS[np.floor] = M.np_floor
        M.EXTRA_CALLS[np.log2] = M.np_log2
        rest = ctx.real("rest", 1e-9, 1.999)
        # one greedy step really depends on the floor: claiming the remainder is always zero must be refuted
        d = ctx.call(int, ctx.call(np.floor, ctx.call(np.log2, M.real_binop(it, __import__("ast").Div(), 255, rest))))
        n = ctx.call(int, ctx.call(np.floor, M.real_binop(it, __import__("ast").Mult(), rest, M.pow2(it, d))))
        ctx.check("remainder-always-zero", mk_bool(lift_real(rest) * M.POW2(lift_int(d)) == z3.ToReal(lift_int(n))))
    R.canary("greedy-step-not-exact", kind="nra", samples=0)(_sym_only(canary))
    return R


def _sym_only(f):
    def g(ctx):
        if not ctx.symbolic:
            from pyvc.harness import Skip
            raise Skip()
        return f(ctx)
    return g
