"""C08 -- NV transpilation preserves program behaviour, not only gates.

Translation-validation style contract, discharged per program schema for ALL data values: a vanilla subroutine
(loops, conditionals, end labels, jumps into the middle, qubit registers written by set or load, one to three carbons)
and its NV transpilation (real ``NVSubroutineTranspiler.transpile``, interpreted) are both executed on the real base
Executor from the same initial state with the same (symbolic) measurement outcomes and classical data;  on every
path:   classical memory (registers named by the source, arrays) is equal,   the sequence of measurements is the same,
        and between consecutive measurements the applied NV gates compose -- exactly, in Z[zeta64][1/2], up to global
        phase -- to the same operator as the vanilla gates (so a branch that lands inside an expansion, a dropped
        instruction or a decomposition chosen for the wrong qubit is a counterexample).
Structural clauses are checked on the transpiled text as well: non-gate instructions keep order and identity, every
branch target maps to the start of the expansion of its original target, a target just past the end gets a no-op.
"""
from __future__ import annotations

from netqasm.lang.instr import core, nv, vanilla
from netqasm.lang.instr.flavour import NVFlavour, VanillaFlavour
from netqasm.lang.parsing.text import parse_text_subroutine
from netqasm.sdk.transpile import NVSubroutineTranspiler
from pyvc.harness import Raised, Registry, Skip
from specs import cyc, gates

from .c04 import _install
from .exec_common import run_bounded, BANKS, new_executor

LEVEL = "proof"
TECHNIQUE = ("contract-based deductive verification (translation validation): vanilla program vs. its real NV transpilation executed on the real executor with symbolic data; "
             "classical memory equality by z3, quantum effect by exact cyclotomic operator identities per path; structural retargeting clauses")

NW = 4          # wires: virtual ids 0..3

SCHEMAS = {
    "straight-line gates on electron and carbon": """
        set Q0 {a}
        set Q1 {b}
        h Q0
        cnot Q0 Q1
        z Q1
        cphase Q1 Q0
        x Q0
    """,
    "conditional skipping expanding gates (target in the middle)": """
        set Q0 0
        set Q1 1
        set R0 {r}
        bez R0 SKIP
        h Q0
        cnot Q0 Q1
        SKIP:
        y Q1
        k Q0
    """,
    "branch target just past the end": """
        set Q0 0
        set R0 {r}
        x Q0
        bnz R0 END
        h Q0
        z Q0
        END:
    """,
    "loop reusing one qubit register for two qubits": """
        set R0 0
        set Q0 0
        h Q0
        LOOP:
        beq R0 2 EXIT
        set Q0 0
        x Q0
        set Q0 1
        y Q0
        add R0 R0 1
        jmp LOOP
        EXIT:
    """,
    "branch to the instruction right after the first expansion": """
        set Q0 0
        set Q1 1
        set R0 {r}
        x Q1
        beq R0 1 AFTER
        set R5 7
        AFTER:
        h Q0
        y Q0
    """,
    "conditional whose body is the first expanding gate": """
        set Q0 0
        set Q1 1
        set R0 {r}
        bne R0 1 AFTER
        {g}
        AFTER:
        set Q0 0
        y Q0
        x Q1
    """,
    "backward jump over expansions with a counter": """
        set R0 0
        set Q0 1
        set Q1 0
        TOP:
        h Q0
        cnot Q1 Q0
        add R0 R0 1
        blt R0 {n} TOP
        x Q1
    """,
    "carbon-carbon gate borrows the electron, other registers stay intact": """
        set Q1 1
        set Q2 2
        set Q0 3
        y Q0
        cnot Q1 Q2
        x Q0
        cphase Q2 Q1
    """,
    "qubit register written by load used by single-qubit gates around a carbon-carbon gate": """
        set R1 0
        set R2 1
        array R2 @0
        set R3 3
        store R3 @0[R1]
        load Q0 @0[R1]
        set Q1 1
        set Q2 2
        y Q0
        cnot Q1 Q2
        x Q0
    """,
    "measurement then conditional correction": """
        set Q0 0
        set Q1 1
        h Q0
        cnot Q0 Q1
        meas Q0 M0
        bez M0 DONE
        x Q1
        DONE:
        h Q1
    """,
    "rotations with any numerator, coarse and fine denominators": """
        set Q0 {a}
        rot_x Q0 {n} {d}
        set Q0 1
        rot_z Q0 {n} {d}
        set Q0 0
        rot_y Q0 {n} {d}
    """,
    "rotations pass through": """
        set Q0 {a}
        rot_x Q0 3 2
        rot_z Q0 5 3
        rot_y Q0 1 1
    """,
}

# ------------------------------------------------------------------ small-scope enumeration of SDK-like program shapes
# The SDK re-sets the qubit register in front of every gate operand; blocks are guarded by a classical register.
OPS = {
    "x0": ["set Q0 0", "x Q0"], "h0": ["set Q0 0", "h Q0"], "x1": ["set Q0 1", "x Q0"], "h1": ["set Q0 1", "h Q0"],
    "cnot01": ["set Q0 0", "set Q1 1", "cnot Q0 Q1"], "cnot10": ["set Q0 1", "set Q1 0", "cnot Q0 Q1"],
    "cnot12": ["set Q0 1", "set Q1 2", "cnot Q0 Q1"], "z2@Q2": ["set Q2 2", "z Q2"],
    # thorough tier only
    "y2": ["set Q0 2", "y Q0"], "cphase21": ["set Q0 2", "set Q1 1", "cphase Q0 Q1"], "meas0": ["set Q0 0", "meas Q0 M0"], "t1": ["set Q0 1", "t Q0"],
}
QUICK_OPS = ["x0", "h0", "x1", "h1", "cnot01", "cnot10", "cnot12", "z2@Q2"]


def shape_text(template, ops):
    """program text for a template over basic operations; R0 = {r} guards the block"""
    L = ["set R0 {r}"]
    if template == "a IF{b} c":
        a, b, c = ops
        L += OPS[a] + ["bez R0 SKIP"] + OPS[b] + ["SKIP:"] + OPS[c]
    elif template == "a IF{b c} d":
        a, b, c, d = ops
        L += OPS[a] + ["bnz R0 SKIP"] + OPS[b] + OPS[c] + ["SKIP:"] + OPS[d]
    elif template == "a LOOP2{b} c":
        a, b, c = ops
        L += OPS[a] + ["set R1 0", "LOOP:", "beq R1 2 EXIT"] + OPS[b] + ["add R1 R1 1", "jmp LOOP", "EXIT:"] + OPS[c]
    elif template == "a IF{b}":                  # block at the very end: the target is just past the end
        a, b = ops
        L += OPS[a] + ["bez R0 END"] + OPS[b] + ["END:"]
    elif template == "IF{a IF{b}} c":            # nested conditionals whose exits coincide
        a, b, c = ops
        L += ["set R2 {r2}", "bez R0 OUTER"] + OPS[a] + ["bez R2 INNER"] + OPS[b] + ["INNER:", "OUTER:"] + OPS[c]
    elif template == "a IF{b IF{c}}":            # ... and coincide with the end of the subroutine
        a, b, c = ops
        L += ["set R2 {r2}"] + OPS[a] + ["bez R0 OUTER"] + OPS[b] + ["bez R2 INNER"] + OPS[c] + ["INNER:", "OUTER:"]
    elif template == "IF{a} ELSE{b} c":
        a, b, c = ops
        L += ["bez R0 ELSE"] + OPS[a] + ["jmp DONE", "ELSE:"] + OPS[b] + ["DONE:"] + OPS[c]
    else:
        raise ValueError(template)
    return "\n".join(L)


KNOWN = {
    "two-qubit gate on a qubit register written by load (stale value equals the other operand)": """
        set R1 0
        set R2 1
        array R2 @0
        set R3 1
        store R3 @0[R1]
        set Q0 0
        load Q0 @0[R1]
        set Q1 0
        cnot Q0 Q1
    """,
    "two-qubit gate on a qubit register written by load (stale electron, really carbon-carbon)": """
        set R1 0
        set R2 1
        array R2 @0
        set R3 1
        store R3 @0[R1]
        set Q0 0
        load Q0 @0[R1]
        set Q1 2
        cnot Q0 Q1
    """,
    "two-qubit gate on a qubit register written by load (never set)": """
        set R1 0
        set R2 1
        array R2 @0
        set R3 1
        store R3 @0[R1]
        load Q0 @0[R1]
        set Q1 0
        cnot Q0 Q1
    """,
}


def _text(body, **vals):
    lines = [l.strip() for l in body.strip().splitlines()]
    return "# NETQASM 0.0\n# APPID 0\n" + "\n".join(lines).format(**vals) + "\n"


def _peek(ctx, ex, reg):
    try:
        return ctx.call(ex._get_register, 0, reg)
    except Raised:
        return None


def _segments(events):
    """split processor events at measurements: [[gate events], meas, [gate events], ...]"""
    segs, cur, meas = [], [], []
    for e in events:
        if e[0] == "meas":
            segs.append(cur)
            meas.append(e[1])
            cur = []
        elif e[0] == "clear":
            continue
        else:
            cur.append(e)
    segs.append(cur)
    return segs, meas


def _wire(ctx, v):
    for k in range(NW):
        if ctx.truth(ctx.eq(v, k)):
            return k
    raise Skip()


def _unitary(ctx, seg, flavour):
    U = cyc.eye(2 ** NW)
    for e in seg:
        if e[0] == "single":
            if e[1] == "init":
                continue
            G = gates.vanilla_unitary(e[1], [_wire(ctx, e[2])], NW)
        elif e[0] == "two":
            G = gates.vanilla_unitary(e[1], [_wire(ctx, e[2]), _wire(ctx, e[3])], NW)
        elif e[0] == "rot":
            G = gates.nv_unitary(e[1], [_wire(ctx, e[2])], NW, (e[3], e[4]))
        elif e[0] == "crot":
            G = gates.nv_unitary(e[1], [_wire(ctx, e[2]), _wire(ctx, e[3])], NW, (e[4], e[5]))
        else:
            raise AssertionError(e)
        U = cyc.matmul(G, U)
    return U


def _run(ctx, sub, outcomes):
    ex = new_executor(ctx, apps=(0,), um_sizes={0: NW})
    if ctx.symbolic:
        _install(ctx, ex, False)
    ex.outcomes = list(outcomes)
    # every virtual qubit exists (the transpiler's contract is about gates; allocation is C09's subject)
    ex._qubit_unit_modules[0] = [10, 11, 12, 13]
    ex._used_physical_qubit_addresses = {10, 11, 12, 13}
    return ex, run_bounded(ctx, ex, sub)


def build():
    R = Registry("C08")
    R.explanation = ("per program schema and for all data values: vanilla program and its real NV transpilation run on the real executor; equal classical memory, same "
                     "measurements, segment-wise exact operator equality of the applied gates; structural retargeting / order clauses")
    R.trusted = ["specs/gates.py + specs/cyc.py (operator semantics, exact arithmetic)", "pyvc interpreter / models; processor hooks by contract (record events)",
                 "text assembler (C03) used to write the schemas"]
    R.assumptions = ["program schemas: ten shapes covering loops, conditionals, end labels, mid-expansion targets, backward jumps, set- and load-written qubit registers, 1..3 carbons; "
                     "data (register values, qubit ids, outcomes, trip counts up to 3) symbolic/enumerated",
                     "virtual ids 0..3 (electron = 0)", "gate operands whose reaching definition is a set (statement: 'reflects the qubit its register actually holds'); "
                     "the load case is an open known finding"]
    R.dropped = ["docstrings, type annotations, logging calls"]

    def mk(name, body, known=False):
        def f(ctx):
            vals = {}
            if "{a}" in body:
                vals["a"] = ctx.choice("a", [0, 1, 2])
            if "{b}" in body:
                vals["b"] = ctx.choice("b", [0, 1, 2, 3])
                if vals.get("a") == vals["b"]:
                    raise Skip() if not ctx.symbolic else __import__("pyvc.interp", fromlist=["PathAbort"]).PathAbort()
            if "{g}" in body:
                vals["g"] = ctx.choice("g", ["h Q0", "z Q1", "k Q0", "s Q1", "t Q0", "cnot Q0 Q1", "cphase Q0 Q1", "x Q0"])
            sym_n = None
            if "{d}" in body:
                vals["d"] = ctx.choice("d", [0, 3, 4, 5, 6, 9])
                sym_n = ctx.int("n", 0, 255)
                vals["n"] = 201          # placeholder numerator, replaced by the symbolic one after assembly
            elif "{n}" in body:
                vals["n"] = ctx.choice("n", [1, 2, 3])
            r = ctx.int("r", -3, 3) if "{r}" in body else None
            if r is not None:
                vals["r"] = 0          # placeholder: replaced by the symbolic value after assembly
            r2 = ctx.int("r2", -3, 3) if "{r2}" in body else None
            if r2 is not None:
                vals["r2"] = 0
            debug = ctx.choice("debug", [False, True])
            text = _text(body, **vals)
            van = parse_text_subroutine(text, flavour=VanillaFlavour())
            src = parse_text_subroutine(text, flavour=VanillaFlavour())
            if r is not None:
                for sub in (van, src):
                    for ins in sub.instructions:
                        if isinstance(ins, core.SetInstruction) and ins.reg.name.name == "R" and ins.reg.index == 0 and ins.imm.value == 0:
                            from netqasm.lang.operand import Immediate
                            ins.imm = Immediate(r)
                            break
            if r2 is not None:
                for sub in (van, src):
                    for ins in sub.instructions:
                        if isinstance(ins, core.SetInstruction) and ins.reg.name.name == "R" and ins.reg.index == 2 and ins.imm.value == 0:
                            from netqasm.lang.operand import Immediate
                            ins.imm = Immediate(r2)
                            break
            if sym_n is not None:
                from netqasm.lang.operand import Immediate
                for sub in (van, src):
                    for ins in sub.instructions:
                        if isinstance(ins, core.RotationInstruction) and ins.angle_num.value == 201:
                            ins.angle_num = Immediate(sym_n)
            outs = [ctx.int(f"outcome{k}", 0, 1) for k in range(2)]
            tr = ctx.call(NVSubroutineTranspiler, src, debug)
            out = ctx.attempt(tr.transpile)
            ctx.check("transpiler-accepts-the-program", out[0] == "ret")
            if out[0] != "ret":
                return
            nvs = out[1]
            n_src = len(van.instructions)
            # ---- structural clauses on the transpiled text
            nv_instrs = [i for i in ctx.getattr(nvs, "instructions")]
            kept = [i for i in nv_instrs if not isinstance(i, (nv.RotXInstruction, nv.RotYInstruction, nv.RotZInstruction, nv.ControlledRotXInstruction,
                                                                nv.ControlledRotYInstruction)) and type(i).__name__ != "DebugInstruction"]
            orig_nongate = [i for i in van.instructions if not isinstance(i, (core.SingleQubitInstruction, core.TwoQubitInstruction, core.RotationInstruction))]
            added = len(kept) - len(orig_nongate)
            ctx.check("no-vanilla-gate-left", not any(type(i).__module__ == vanilla.__name__ for i in nv_instrs))
            ctx.check("non-gate-instructions-keep-order-and-identity (plus inserted set/no-op only)",
                      added >= 0 and _subsequence([_sig(i) for i in orig_nongate], [_sig(i) for i in kept]))
            if debug:
                return              # DebugInstructions cannot be executed; the structural clauses above are all that is claimed with debug=True
            # ---- behaviour
            exv, errv = _run(ctx, van, outs)
            exn, errn = _run(ctx, nvs, outs)
            ctx.check("both-run-to-completion", errv is None and errn is None)
            if errv is not None or errn is not None:
                return
            named = set()
            for i in van.instructions:
                for o in i.operands:
                    if hasattr(o, "name") and hasattr(o, "index") and not isinstance(o.index, type(None)) and type(o).__name__ == "Register":
                        named.add(o)
            ok = True
            for reg in named:
                if reg.name.name == "Q" and ctx.truth(ctx.is_none(_peek(ctx, exv, reg))):
                    continue            # never written by the source on this path
                ok = ctx.and_(ok, ctx.eq(ctx.call(exv._get_register, 0, reg), ctx.call(exn._get_register, 0, reg)))
            ctx.check("classical-registers-named-by-the-source-are-equal", ok)
            ctx.check("arrays-equal", ctx.eq(exv._app_arrays[0]._arrays, exn._app_arrays[0]._arrays))
            sv, mv = _segments(exv.events)
            sn, mn = _segments(exn.events)
            ctx.check("same-measurements-in-the-same-order", len(mv) == len(mn) and all(ctx.truth(ctx.eq(a, b)) for a, b in zip(mv, mn)))
            ctx.check("controlled-rotations-are-electron-controlled-and-act-on-a-carbon",
                      all(ctx.truth(ctx.and_(ctx.eq(e[2], 0), ctx.not_(ctx.eq(e[3], 0)))) for e in exn.events if e[0] == "crot"))
            if sym_n is not None:
                # symbolic angles: the exact arithmetic needs concrete ones, so the rotations are compared one by one:
                # same axis, same qubit, and n/2^d == n'/2^d' modulo a full turn (2 in units of pi)
                a, b = [e for e in exv.events if e[0] == "rot"], [e for e in exn.events if e[0] == "rot"]
                ok = len(a) == len(b)
                for ea, eb in zip(a, b):
                    ok = ok and ea[1] == eb[1] and ctx.truth(ctx.eq(ea[2], eb[2])) and isinstance(ea[4], int) and isinstance(eb[4], int)
                    if ok:
                        m = 2 ** (ea[4] + eb[4] + 1)
                        ok = ctx.truth(ctx.eq(ctx.mod(ctx.mul(ea[3], 2 ** eb[4]), m), ctx.mod(ctx.mul(eb[3], 2 ** ea[4]), m)))
                ctx.check("every-rotation-keeps-axis-qubit-and-angle (modulo a full turn)", ok)
            elif len(sv) == len(sn):
                same = True
                for a, b in zip(sv, sn):
                    same = same and cyc.eq_up_to_phase(_unitary(ctx, b, "nv"), _unitary(ctx, a, "vanilla"))
                ctx.check("applied-gates-compose-to-the-same-operator-between-measurements", same)
        return f

    for name, body in SCHEMAS.items():
        R.add(f"schema[{name}]", kind="exact", samples=12, max_paths=400)(mk(name, body))
    for name, body in KNOWN.items():
        R.add(f"schema[{name}]", kind="exact", samples=4, max_paths=100)(mk(name, body, known=True))

    # small-scope enumeration: every program of each template over the alphabet, data symbolic
    import itertools
    def mk_shapes(template, first, alphabet, arity):
        def f(ctx):
            rest = [ctx.choice(f"op{k}", alphabet) for k in range(1, arity)]
            body = shape_text(template, [first] + rest)
            return mk(f"{template} / {first}", body)(ctx)
        return f
    for template, arity in (("a IF{b} c", 3), ("a LOOP2{b} c", 3), ("a IF{b}", 2), ("IF{a} ELSE{b} c", 3), ("IF{a IF{b}} c", 3), ("a IF{b IF{c}}", 3)):
        for first in OPS:
            quick = first in QUICK_OPS
            R.add(f"shapes[{template}][a={first}][quick alphabet]", kind="exact", samples=4, max_paths=4000, thorough_only=not quick,
                  note=f"all programs of template '{template}' with a={first} and the other operations from the {len(QUICK_OPS)}-operation alphabet")(
                mk_shapes(template, first, QUICK_OPS, arity))
            R.add(f"shapes[{template}][a={first}][full alphabet]", kind="exact", samples=4, max_paths=40000, thorough_only=True,
                  note=f"... from the full {len(OPS)}-operation alphabet")(mk_shapes(template, first, list(OPS), arity))
    for first in QUICK_OPS:
        R.add(f"shapes[a IF{{b c}} d][a={first}]", kind="exact", samples=4, max_paths=40000, thorough_only=True)(mk_shapes("a IF{b c} d", first, QUICK_OPS, 4))

    def canary(ctx):
        text = _text("set Q0 0\nset Q1 1\ncnot Q0 Q1\n")
        van = parse_text_subroutine(text, flavour=VanillaFlavour())
        src = parse_text_subroutine(_text("set Q0 0\nset Q1 1\ncphase Q0 Q1\n"), flavour=VanillaFlavour())
        nvs = ctx.call(ctx.call(NVSubroutineTranspiler, src).transpile)
        exv, _ = _run(ctx, van, [])
        exn, _ = _run(ctx, nvs, [])
        sv, _ = _segments(exv.events)
        sn, _ = _segments(exn.events)
        ctx.check("cphase-expansion-equals-cnot", cyc.eq_up_to_phase(_unitary(ctx, sn[0], "nv"), _unitary(ctx, sv[0], "vanilla")))
    R.canary("different-gates-differ", kind="exact", samples=1)(canary)
    return R


def _sig(i):
    return (type(i).__name__, tuple(str(o) for o in i.operands if type(o).__name__ != "Immediate" or type(i).__name__ == "SetInstruction"))


def _subsequence(a, b):
    """a is a subsequence of b (branch immediates excluded from the signature: targets are checked by execution)"""
    it = iter(b)
    return all(any(x == y for y in it) for x in a)
