"""SDK -> controller pipeline for the end-to-end obligations (C11, C05, C06, C09, C10): a real SDK connection whose
committed subroutines are executed on the real base ``Executor`` (both interpreted by pyvc in symbolic mode), with
the host's shared memory being the executor's.  Harness classes only supply what a simulator must supply
(node id, network stack, processor hooks, the transport between host and controller)."""
from __future__ import annotations

from netqasm.backend.messages import (InitNewAppMessage, OpenEPRSocketMessage, StopAppMessage, SubroutineMessage,
                                      deserialize_host_msg)
from netqasm.sdk.connection import BaseNetQASMConnection, DebugConnection
from netqasm.sdk.shared_memory import SharedMemoryManager

from .exec_common import Ex, NatEx, Stack


class PipeEx(Ex):
    """base executor; waiting yields control to the driver (which may deliver link-layer responses)"""

    def __init__(self, *a, **k):
        super().__init__(*a, **k)
        self.outcomes = []          # scripted measurement outcomes (consumed in order; default 0)

    def _do_wait(self):
        yield "wait"


class PipeNatEx(NatEx):
    def __init__(self, *a, **k):
        super().__init__(*a, **k)
        self.outcomes = []

    def _do_wait(self):
        yield "wait"

    def _do_meas(self, subroutine_id, q_address):
        self.events.append(("meas", q_address))
        return self.outcomes.pop(0) if self.outcomes else self.outcome


class PipeConn(DebugConnection):
    """DebugConnection whose transport hands every committed subroutine to ``self.runner`` (set by the check) and
    whose shared memory is the controller's.  Ghost object: its own methods accept symbolic values."""
    _pyvc_ghost = True

    def __init__(self, *a, executor=None, **k):
        self.ex = executor
        self.sent = []
        self.runner = None
        super().__init__(*a, **k)

    def _shm(self):
        return self.ex._shared_memories[self._app_id]
    _shm._pyvc_ghost = True
    shared_memory = property(_shm)

    def _commit_serialized_message(self, raw_msg, block=True, callback=None):
        msg = deserialize_host_msg(raw_msg)
        if isinstance(msg, InitNewAppMessage):
            self.ex.init_new_application(app_id=msg.app_id, max_qubits=msg.max_qubits)
        elif isinstance(msg, OpenEPRSocketMessage):
            pass
        elif isinstance(msg, StopAppMessage):
            list(self.ex.stop_application(msg.app_id))
        self.storage.append(raw_msg)

    def commit_subroutine(self, subroutine, block=True, callback=None):
        self.sent.append(subroutine)
        if self.runner is not None:
            self.runner(subroutine)


def make_pipeline(ctx, app_name="Alice", **conn_kw):
    """(connection, executor) on clean global state"""
    SharedMemoryManager.reset_memories()
    BaseNetQASMConnection._app_ids = {}
    BaseNetQASMConnection._app_names = {}
    DebugConnection.node_ids = {"Alice": 0, "Bob": 1, "Charlie": 2}
    ex = (PipeEx if ctx.symbolic else PipeNatEx)(name=app_name)
    ex.network_stack = Stack()
    if ctx.symbolic:
        from pyvc import models as M
        # request tables keyed by (remote node, purpose) with possibly symbolic components
        ex._epr_create_requests = M.SymKeyDict("Qc", [], default_factory=list)
        ex._epr_recv_requests = M.SymKeyDict("Qr", [], default_factory=list)
    conn = PipeConn(app_name, executor=ex, **conn_kw)
    return conn, ex


def table_entries(t):
    """[(key, queue)] of a request table (dict or symbolic key dict)"""
    return list(t.entries) if hasattr(t, "entries") else list(t.items())


def drive(ctx, ex, subroutine, on_wait=None, max_waits=50):
    """run a subroutine on the executor; each time it waits, call ``on_wait(k)`` (k = 0, 1, ...).  Returns the number of waits."""
    gen = ctx.call(ex.execute_subroutine, subroutine)
    k = 0
    if ctx.symbolic:
        from pyvc.interp import PyExc
        while True:
            try:
                v = gen.send(None)
            except PyExc as x:
                if isinstance(x.e, StopIteration):
                    return k
                from pyvc.harness import Raised
                raise Raised(x.e)
            if v == "wait":
                if on_wait is None or k >= max_waits:
                    gen.kill()
                    return k
                on_wait(k)
                k += 1
    else:
        from pyvc.harness import Raised
        try:
            for v in gen:
                if v == "wait":
                    if on_wait is None or k >= max_waits:
                        gen.close()
                        return k
                    on_wait(k)
                    k += 1
        except Exception as e:
            raise Raised(e)
        return k
