"""C15 -- host/controller messages survive serialisation.

Contract per message class M (field values symbolic over their declared widths):

    m = M(args);  m' = deserialize_{host,return}_msg(bytes(m))
    ensures  type(m') is M  and every field of m' equals the constructor argument

plus: the type byte is a bijection between message classes and types (dispatch table),
SubroutineMessage returns its payload bytes unchanged, ReturnArrayMessage returns address
and every entry -- *including undefined (None) entries* -- for lengths 0..3 (each entry
symbolic Optional[int32]); the per-entry lemma is independent of the position and length
(ctypes arrays are consecutive fixed-size structures: library model).
"""
from __future__ import annotations

import ctypes

from netqasm.backend import messages as MSG
from netqasm.lang import encoding
from pyvc.harness import Registry
from pyvc.values import SymBytes, flat_fields

LEVEL = "proof"
TECHNIQUE = ("contract-based deductive verification: per-message-class round-trip contract, VCs from symbolic execution of the "
             "real __init__/__bytes__/deserialize_from bodies, z3 LIA; ctypes layout by introspection")

_SIGNED = (ctypes.c_int8, ctypes.c_int16, ctypes.c_int32, ctypes.c_int64)


# Declared widths of the host/controller message format (pinned from release 0.15.0, commit 3397f97 -- the message
# format is an interface between host and controller, like the opcode table).  u = unsigned, i = signed.
WIDTHS = {
    "app_id": "u32", "max_qubits": "u8", "epr_socket_id": "i32", "remote_node_id": "i32", "remote_epr_socket_id": "i32",
    "min_fidelity": "u8", "msg_id": "u32", "err_code": "u8", "signal": "u8", "value": "i32", "address": "i32",
}


def _range(S, field):
    w = WIDTHS[field]
    bits = int(w[1:])
    if w[0] == "i":
        return -(1 << (bits - 1)), (1 << (bits - 1)) - 1
    return 0, (1 << bits) - 1


def build():
    R = Registry("C15")
    R.explanation = ("round-trip contract per message class over all field values in their declared widths; dispatch-table "
                     "bijection; optional-int element lemma incl. None; payload pass-through for subroutine messages")
    R.trusted = [
        "ctypes model: layout read from the real field descriptors (incl. padding), memcpy semantics, little endian, truncating stores; "
        "a _fields_ descriptor shadows a same-named class-body attribute; arrays of structures are consecutive elements",
        "dataclass/enum/builtin models of pyvc.models; z3 LIA",
    ]
    R.assumptions = ["ReturnArrayMessage: lengths 0..3 are executed symbolically per entry; longer arrays follow from the "
                     "position-independent element lemma and the ctypes array layout model (stated, not machine-checked)"]
    R.dropped = ["docstrings, type annotations, logging calls, __str__ of messages"]

    host = MSG.deserialize_host_msg
    ret = MSG.deserialize_return_msg

    def simple(cls, deser, argnames):
        def f(ctx):
            args = {a: ctx.int(a, *_range(cls, a)) for a in argnames}
            m = ctx.call(cls, **args)
            raw = ctx.call(bytes, m)
            m2 = ctx.call(deser, raw)
            ctx.check("same-type", ctx.call(type, m2) is cls)
            ctx.check("type-field", ctx.eq(ctx.getattr(m2, "type"), cls.TYPE.value))
            for a in argnames:
                ctx.check(f"field[{a}]", ctx.eq(ctx.getattr(m2, a), args[a]))
        return f

    def own_copy(cls, deser, argnames):
        """a deserialised message is a value of its own: it does not change when the receive buffer it was read from is re-used
        (bytes, bytearray and writable memoryview inputs); native, the buffer protocol is outside the symbolic ctypes model"""
        def f(ctx):
            args = {a: ctx.int(a, *_range(cls, a)) for a in argnames}
            raw = bytes(cls(**args))
            kind = ctx.choice("buffer", ["bytes", "bytearray", "memoryview"])
            buf = bytearray(raw)
            src = raw if kind == "bytes" else (buf if kind == "bytearray" else memoryview(buf))
            out = ctx.attempt(deser, src)
            ctx.check("a message can be read from any bytes-like receive buffer", out[0] == "ret")
            if out[0] != "ret":
                return
            m2 = out[1]
            for i in range(len(buf)):
                buf[i] = 0xFF ^ buf[i]              # the buffer is re-used for the next message
            ctx.check("the message keeps its fields after the receive buffer was overwritten",
                      all(getattr(m2, a) == args[a] for a in argnames) and m2.type == cls.TYPE.value)
        return f
    for cls, deser, names in ((MSG.InitNewAppMessage, host, ["app_id", "max_qubits"]), (MSG.StopAppMessage, host, ["app_id"]), (MSG.MsgDoneMessage, ret, ["msg_id"])):
        R.add(f"own-copy[{cls.__name__}]", kind="bounded", bounded_only=True, samples=12,
              note="12 sampled field valuations x {bytes, bytearray, writable memoryview}")(own_copy(cls, deser, names))

    def again(cls, deser, argnames):
        """deserialising is a function of the bytes: the same bytes give a NEW message with the values in the bytes, whatever was done to a message
        obtained from them before; and serialising is a function of the message's current fields"""
        def f(ctx):
            args = {a: ctx.int(a, *_range(cls, a)) for a in argnames}
            other = {a: ctx.int(a + "'", *_range(cls, a)) for a in argnames}
            m = cls(**args)
            raw = bytes(m)
            m1 = deser(raw)
            for a in argnames:
                setattr(m1, a, other[a])            # the receiver changes the message it got
            m2 = deser(bytes(raw))
            ctx.check("identical bytes delivered again give the values in the bytes", all(getattr(m2, a) == args[a] for a in argnames) and m2 is not m1)
            for a in argnames:
                setattr(m, a, other[a])             # the sender re-uses its message object with new field values
            m3 = deser(bytes(m))
            ctx.check("a message object serialised again after its fields changed carries the current fields", all(getattr(m3, a) == other[a] for a in argnames))
        return f
    for cls, deser, names in ((MSG.InitNewAppMessage, host, ["app_id", "max_qubits"]), (MSG.StopAppMessage, host, ["app_id"]), (MSG.MsgDoneMessage, ret, ["msg_id"]),
                              (MSG.OpenEPRSocketMessage, host, ["app_id", "epr_socket_id", "remote_node_id", "remote_epr_socket_id", "min_fidelity"])):
        R.add(f"again[{cls.__name__}]", kind="bounded", bounded_only=True, samples=20,
              note="20 sampled pairs of field valuations; native (object identity and in-place updates of real ctypes structures)")(again(cls, deser, names))

    def again_array(ctx):
        n = ctx.choice("length", [1, 2, 3, 5])
        rnd = lambda t: (None if ctx.choice(t + "!none", [False, True]) else ctx.int(t, -2 ** 31, 2 ** 31 - 1))
        vals = [rnd(f"v{k}") for k in range(n)]
        m = MSG.ReturnArrayMessage(7, list(vals))
        first = ret(bytes(m))
        ctx.check("first serialisation", list(first.values) == vals and len(bytes(m)) == len(m))
        i = ctx.choice("entry changed in place", list(range(n)))
        new = rnd("new")
        how = ctx.choice("update", ["entry assigned", "entry undefined", "entry appended", "values replaced"])
        cur = list(vals)
        if how == "entry assigned":
            m.values[i] = new
            cur[i] = new
        elif how == "entry undefined":
            m.values[i] = None
            cur[i] = None
        elif how == "entry appended":
            try:
                m.values.append(new)
                cur.append(new)
            except AttributeError:
                pass                                 # values kept in an immutable sequence: nothing to update in place
        else:
            cur = [new] + cur[1:]
            m.values = list(cur)
        second = ret(bytes(m))
        ctx.check("serialised again after an in-place update: the bytes carry the CURRENT entries", list(second.values) == list(m.values) and len(bytes(m)) == len(m))
        if list(m.values) == cur:
            ctx.check("the update took effect", list(second.values) == cur)
    R.add("again[ReturnArrayMessage updated in place]", kind="bounded", bounded_only=True, samples=60,
          note="60 sampled (length, entries, update) cases; native")(again_array)

    def again_subroutine(ctx):
        payload = bytes(ctx.int(f"p{k}", 0, 255) for k in range(ctx.choice("length", [0, 1, 5, 14])))
        lead = ctx.choice("leading byte", ["any", "the SUBROUTINE tag", "the tag twice"])
        tag = bytes([MSG.MessageType.SUBROUTINE.value])
        payload = {"any": b"", "the SUBROUTINE tag": tag, "the tag twice": tag + tag}[lead] + payload
        m2 = host(bytes(MSG.SubroutineMessage(payload)))
        ctx.check("payload-unchanged (also when it starts with the byte used as type tag)", bytes(m2.subroutine) == payload)
    R.add("roundtrip[SubroutineMessage][payload starting with the type tag]", kind="bounded", bounded_only=True, samples=36,
          note="36 sampled payloads; native")(again_subroutine)

    R.add("roundtrip[InitNewAppMessage]", samples=30)(simple(MSG.InitNewAppMessage, host, ["app_id", "max_qubits"]))
    R.add("roundtrip[OpenEPRSocketMessage]", samples=30)(simple(
        MSG.OpenEPRSocketMessage, host, ["app_id", "epr_socket_id", "remote_node_id", "remote_epr_socket_id", "min_fidelity"]))
    R.add("roundtrip[StopAppMessage]", samples=30)(simple(MSG.StopAppMessage, host, ["app_id"]))
    R.add("roundtrip[MsgDoneMessage]", samples=30)(simple(MSG.MsgDoneMessage, ret, ["msg_id"]))

    def signal(ctx):
        s = ctx.choice("signal", list(MSG.Signal))
        m = ctx.call(MSG.SignalMessage, s)
        m2 = ctx.call(host, ctx.call(bytes, m))
        ctx.check("same-type", ctx.call(type, m2) is MSG.SignalMessage)
        ctx.check("field[signal]", ctx.eq(ctx.getattr(m2, "signal"), s.value))
        m3 = ctx.call(host, ctx.call(bytes, ctx.call(MSG.SignalMessage)))
        ctx.check("default-signal", ctx.eq(ctx.getattr(m3, "signal"), MSG.Signal.STOP.value))
    R.add("roundtrip[SignalMessage]", samples=4)(signal)

    def error(ctx):
        e = ctx.choice("err", list(MSG.ErrorCode))
        m = ctx.call(MSG.ErrorMessage, e)
        m2 = ctx.call(ret, ctx.call(bytes, m))
        ctx.check("same-type", ctx.call(type, m2) is MSG.ErrorMessage)
        ctx.check("field[err_code]", ctx.eq(ctx.getattr(m2, "err_code"), e.value))
    R.add("roundtrip[ErrorMessage]", samples=6)(error)

    def retreg(ctx):
        bank = ctx.int("bank", 0, 3)
        idx = ctx.int("idx", 0, 15)
        val = ctx.int("value", -2 ** 31, 2 ** 31 - 1)
        reg = ctx.call(encoding.Register, bank, idx)
        m = ctx.call(MSG.ReturnRegMessage, reg, val)
        m2 = ctx.call(ret, ctx.call(bytes, m))
        ctx.check("same-type", ctx.call(type, m2) is MSG.ReturnRegMessage)
        r2 = ctx.getattr(m2, "register")
        ctx.check("field[register.name]", ctx.eq(ctx.getattr(r2, "register_name"), bank))
        ctx.check("field[register.index]", ctx.eq(ctx.getattr(r2, "register_index"), idx))
        ctx.check("field[value]", ctx.eq(ctx.getattr(m2, "value"), val))
    R.add("roundtrip[ReturnRegMessage]", samples=30)(retreg)

    def subroutine(n):
        def f(ctx):
            payload = [ctx.int(f"p{k}", 0, 255) for k in range(n)]
            raw_in = SymBytes(payload) if ctx.symbolic else bytes(payload)
            m = ctx.call(MSG.SubroutineMessage, raw_in)
            raw = ctx.call(bytes, m)
            ctx.check("type-byte", ctx.eq(ctx.index(raw, 0), MSG.MessageType.SUBROUTINE.value))
            m2 = ctx.call(host, raw)
            ctx.check("same-type", ctx.call(type, m2) is MSG.SubroutineMessage)
            out = ctx.getattr(m2, "subroutine")
            ctx.check("payload-length", ctx.eq(ctx.len(out), n))
            ctx.check("payload-unchanged", ctx.and_(*[ctx.eq(ctx.index(out, k), payload[k]) for k in range(n)]))
        return f
    for n in (0, 1, 4, 11):
        R.add(f"roundtrip[SubroutineMessage][{n}-bytes]", samples=25)(subroutine(n))

    def retarr(n):
        def f(ctx):
            addr = ctx.int("address", -2 ** 31, 2 ** 31 - 1)
            vals = [ctx.optint(f"v{k}", -2 ** 31, 2 ** 31 - 1) for k in range(n)]
            m = ctx.call(MSG.ReturnArrayMessage, addr, vals)
            raw = ctx.call(bytes, m)
            m2 = ctx.call(ret, raw)
            ctx.check("same-type", ctx.call(type, m2) is MSG.ReturnArrayMessage)
            ctx.check("field[address]", ctx.eq(ctx.getattr(m2, "address"), addr))
            out = ctx.getattr(m2, "values")
            ctx.check("length", ctx.eq(ctx.len(out), n))
            for k in range(n):
                ctx.check(f"entry[{k}]-undefined-iff-undefined", ctx.eq(ctx.is_none(ctx.index(out, k)), ctx.is_none(vals[k])))
                ctx.check(f"entry[{k}]-value", ctx.or_(ctx.is_none(vals[k]), ctx.eq(ctx.index(out, k), vals[k])))
        return f
    for n in (0, 1, 2, 3):
        R.add(f"roundtrip[ReturnArrayMessage][len={n}]", samples=40)(retarr(n))

    def dispatch(ctx):
        host_classes = [MSG.InitNewAppMessage, MSG.OpenEPRSocketMessage, MSG.SubroutineMessage, MSG.StopAppMessage, MSG.SignalMessage]
        ret_classes = [MSG.MsgDoneMessage, MSG.ErrorMessage, MSG.ReturnRegMessage, MSG.ReturnArrayMessage]
        for c in host_classes:
            ctx.check(f"host-dispatch[{c.__name__}]", MSG.MESSAGE_CLASSES.get(c.TYPE) is c)
        for c in ret_classes:
            ctx.check(f"return-dispatch[{c.__name__}]", MSG.RETURN_MESSAGE_CLASSES.get(c.TYPE) is c)
        ctx.check("host-types-distinct", len({c.TYPE.value for c in host_classes}) == len(host_classes))
        ctx.check("return-types-distinct", len({c.TYPE.value for c in ret_classes}) == len(ret_classes))
        ctx.check("all-host-types-mapped", set(MSG.MESSAGE_CLASSES) == set(MSG.MessageType))
        ctx.check("all-return-types-mapped", set(MSG.RETURN_MESSAGE_CLASSES) == set(MSG.ReturnMessageType))
    R.add("dispatch-tables", kind="table", samples=1)(dispatch)

    def canary(ctx):
        a = ctx.int("app_id", 0, 2 ** 32)          # one past the width
        m = ctx.call(MSG.StopAppMessage, app_id=a)
        m2 = ctx.call(host, ctx.call(bytes, m))
        ctx.check("beyond-width", ctx.eq(ctx.getattr(m2, "app_id"), a))
    R.canary("width", samples=40)(canary)
    return R
