"""C12 -- the controller matches entanglement responses to requests under any interleaving.

Atomicity: the executor is single threaded; other activity happens only at the yield points of the base
class, so an interleaving is a sequence of atomic steps {an instruction runs up to its next yield, one
response is delivered}.  Each step is given a contract that holds from an ARBITRARY pre-state, which covers
every such sequence:

  deliver     view(ex') == epr.deliver(view(ex), response)   (specs/epr.py, written from the statement:
              oldest matching request for (remote node, purpose, role), pair k -> slice k and k-th virtual
              qubit, retire after exactly tot pairs, never overwrite an allocated virtual qubit, every
              response consumed at most once, unhandleable ones stay pending in arrival order)
              -- proved for every shape with up to 3 outstanding requests (create/receive roles and two
              sockets mixed, 1..3 pairs each, symbolic progress) and up to 2 earlier pending responses,
              all identifiers, array handles, qubit ids symbolic
  create_epr / recv_epr   append exactly one request record at the END of the right queue
  wait_all / wait_any / wait_single   on exit the awaited entries are defined (partial correctness;
              _do_wait is an arbitrary environment step)

``_wait_to_handle_epr_responses`` is an overridable scheduling hook ("sleep a little before handling
again"); its contract here is "returns, state unchanged" and the later attempt is the same ``retry`` step.
Only the safety reading is claimed (at most once / oldest first / slice k); that every response is
*eventually* consumed depends on the overriding hook's scheduling and is not claimed.
"""
from __future__ import annotations

import collections
import random

import z3

from netqasm.backend.executor import EprCmdData, Executor
from netqasm.lang.instr import core
from netqasm.lang.operand import Address, ArrayEntry, ArraySlice, Register
from netqasm.lang.subroutine import Subroutine
from netqasm.qlink_compat import (BellState, LinkLayerCreate, LinkLayerOKTypeK, LinkLayerOKTypeM, RequestType,
                                  ReturnType)
from pyvc import interp as I
from pyvc import models as M
from pyvc.harness import Raised, Registry, Skip
from pyvc.values import SInt, lift_int, mk_bool, mk_int
from specs import epr

from .c04 import SID, _install
from .codec_common import mk_instr
from .exec_common import (keydict_eq, list_eq, new_executor, pin_register, set_eq, symbolic_app_state)

LEVEL = "proof"
TECHNIQUE = ("contract-based deductive verification: atomic-step contracts (deliver == spec function on the abstract view) on symbolic executor "
             "states for every request-queue shape up to 3 outstanding requests, z3 (arrays, LIA); loop contracts for the wait instructions")

NODE = 0


def _scenario(ctx, n_req, n_old):
    """executor with n_req outstanding requests (roles / sockets chosen, identifiers symbolic) and n_old responses
    already pending; returns (ex, spec_state, new_response)"""
    ex = new_executor(ctx, apps=(0,))
    ex._subroutines[SID] = Subroutine(app_id=0)
    sym = ctx.symbolic
    # two sockets (remote node, purpose)
    keys = []
    for j in range(2):
        keys.append((ctx.int(f"remote{j}", 1, 5), ctx.int(f"purpose{j}", 0, 5)))
    ctx.assume(ctx.not_(ctx.and_(ctx.eq(keys[0][0], keys[1][0]), ctx.eq(keys[0][1], keys[1][1]))))
    # unit module and in-use set
    if sym:
        umlen = ctx.int("um_len", 0, None)
        ctx.prefer(ctx.le(umlen, 6))
        UM = M.SymList("UM", length=umlen.t)
        USED = M.SymIntSet("USED")
        for k in range(6):
            v = ctx.optint(f"um_{k}", 0, 200)
            ctx.it.pc.append(z3.Implies(umlen.t > k, z3.And(z3.Select(UM.isnone, k) == v.isnone, z3.Implies(z3.Not(v.isnone), z3.Select(UM.val, k) == v.val))))
    else:
        umlen = ctx.int("um_len", 1, 6) if ctx.rng is not None else ctx.int("um_len", 0, None)
        if umlen > 6:
            raise Skip()
        UM = []
        for k in range(6):
            v = ctx.optint(f"um_{k}", 0, 200)
            if k < umlen:
                UM.append(v)
        USED = {v for v in UM if v is not None}
    ex._qubit_unit_modules[0] = UM
    ex._used_physical_qubit_addresses = USED
    # requests
    arrays = []          # (address, list)
    reqs = []
    addr_pool = []
    for j in range(n_req):
        role = ctx.choice(f"role{j}", ["create", "recv"])
        sock = ctx.choice(f"socket{j}", [0, 1])
        tot = ctx.int(f"tot{j}", 1, 3)
        left = ctx.int(f"left{j}", 1, 3)
        ctx.assume(ctx.le(left, tot))
        ent = ctx.int(f"ent_addr{j}", 0, 1000)
        qa = ctx.int(f"q_addr{j}", 0, 1000)
        for a in addr_pool:
            ctx.assume(ctx.not_(ctx.eq(ent, a)))
            ctx.assume(ctx.not_(ctx.eq(qa, a)))
        ctx.assume(ctx.not_(ctx.eq(ent, qa)))
        addr_pool += [ent, qa]
        if sym:
            elen = ctx.int(f"ent_len{j}", 0, None)
            ctx.assume(ctx.ge(elen, ctx.mul(tot, 10)))
            E = M.SymList(f"E{j}", length=elen.t)
            Q = M.SymList(f"Q{j}", length=lift_int(tot))
            # virtual ids: defined, inside the unit module
            i = z3.Int(f"qi{j}")
            ctx.it.assume.append(z3.ForAll([i], z3.Implies(z3.And(i >= 0, i < lift_int(tot)),
                                                           z3.And(z3.Not(z3.Select(Q.isnone, i)), z3.Select(Q.val, i) >= 0, z3.Select(Q.val, i) < umlen.t))))
            ctx.it._solver = None
            for k in range(3):
                vqk = ctx.int(f"vq{j}_{k}", 0, None)
                ctx.it.pc.append(z3.Implies(lift_int(tot) > k, z3.Select(Q.val, k) == vqk.t))
        else:
            E = [None] * (10 * tot + ctx.int(f"ent_extra{j}", 0, 2))
            Q = []
            for k in range(3):
                vqk = ctx.int(f"vq{j}_{k}", 0, max(0, umlen - 1))
                if k < tot:
                    if not (0 <= vqk < umlen):
                        raise Skip()
                    Q.append(vqk)
        arrays += [(ent, E), (qa, Q)]
        reqs.append(dict(role=role, sock=sock, tot=tot, left=left, ent=ent, qa=qa))
    # install queues
    def mk_tables(record):
        tabs = {"create": [], "recv": []}
        for r in reqs:
            key = keys[r["sock"]]
            lst = None
            for (k, l) in tabs[r["role"]]:
                if k is key:
                    lst = l
            if lst is None:
                lst = []
                tabs[r["role"]].append((key, lst))
            lst.append(record(r))
        return tabs
    real_t = mk_tables(lambda r: EprCmdData(subroutine_id=SID, ent_results_array_address=r["ent"], q_array_address=r["qa"], request=None,
                                            tot_pairs=r["tot"], pairs_left=r["left"]))
    spec_t = mk_tables(lambda r: epr.Req(SID, r["ent"], r["qa"], r["tot"], r["left"]))
    if sym:
        ex._epr_create_requests = M.SymKeyDict("Qc", real_t["create"], default_factory=list)
        ex._epr_recv_requests = M.SymKeyDict("Qr", real_t["recv"], default_factory=list)
        ex._app_arrays[0]._arrays = M.SymKeyDict("A", arrays)
        sA = M.SymKeyDict("A'", [(a, M.SymList(l.name + "'", l.length, l.isnone, l.val)) for a, l in arrays])
        sUM = M.SymList("UM'", UM.length, UM.isnone, UM.val)
        sUSED = M.SymIntSet("USED'", USED.arr)
        sQc = M.SymKeyDict("Qc'", spec_t["create"])
        sQr = M.SymKeyDict("Qr'", spec_t["recv"])
    else:
        ex._epr_create_requests = collections.defaultdict(list, {k: l for k, l in real_t["create"]})
        ex._epr_recv_requests = collections.defaultdict(list, {k: l for k, l in real_t["recv"]})
        ex._app_arrays[0]._arrays = {a: l for a, l in arrays}
        sA = {a: list(l) for a, l in arrays}
        sUM = list(UM)
        sUSED = set(USED)
        sQc = {k: l for k, l in spec_t["create"]}
        sQr = {k: l for k, l in spec_t["recv"]}

    def mk_resp(tag):
        ty = ctx.choice(f"{tag}_type", ["K", "M"])
        rn = ctx.int(f"{tag}_remote", 1, 5)
        pp = ctx.int(f"{tag}_purpose", 0, 5)
        df = ctx.int(f"{tag}_directionality", 0, 1)
        if ty == "K":
            lq = ctx.int(f"{tag}_physical", 0, 50)
            return LinkLayerOKTypeK(type=ReturnType.OK_K, create_id=ctx.int(f"{tag}_cid", 0, 9), logical_qubit_id=lq, directionality_flag=df,
                                    sequence_number=ctx.int(f"{tag}_seq", 0, 9), purpose_id=pp, remote_node_id=rn, goodness=ctx.int(f"{tag}_good", 0, 9),
                                    goodness_time=ctx.int(f"{tag}_gt", 0, 9), bell_state=BellState.PSI_MINUS)
        return LinkLayerOKTypeM(type=ReturnType.OK_M, create_id=ctx.int(f"{tag}_cid", 0, 9), measurement_outcome=ctx.int(f"{tag}_out", 0, 1),
                                measurement_basis=ctx.int(f"{tag}_basis", 0, 2), directionality_flag=df, sequence_number=ctx.int(f"{tag}_seq", 0, 9),
                                purpose_id=pp, remote_node_id=rn, goodness=ctx.int(f"{tag}_good", 0, 9), bell_state=BellState.PHI_MINUS)
    old = [mk_resp(f"old{j}") for j in range(n_old)]
    new = mk_resp("new")
    phys = [r.logical_qubit_id for r in old + [new] if isinstance(r, LinkLayerOKTypeK)]
    for a in range(len(phys)):
        for b in range(a + 1, len(phys)):
            ctx.assume(ctx.not_(ctx.eq(phys[a], phys[b])))     # environment: delivered physical qubits are fresh
    ex._pending_epr_responses = list(old)
    spec = epr.EprState(NODE, list(old), sQc, sQr, sA, sUM, sUSED)
    return ex, spec, new, (real_t, spec_t)


def _compare(ctx, ex, spec, tabs, prefix=""):
    real_t, spec_t = tabs
    ctx.check(f"{prefix}pending: same responses in the same order", len(ex._pending_epr_responses) == len(spec.pending) and
              all(a is b for a, b in zip(ex._pending_epr_responses, spec.pending)))

    def queues(rt, st, which):
        rq = rt.entries if isinstance(rt, M.SymKeyDict) else list(rt.items())
        sq = st.entries if isinstance(st, M.SymKeyDict) else list(st.items())
        # real side may have created empty default entries: compare the non-empty queues positionally
        rq = [(k, l) for k, l in rq if len(l) > 0]
        sq = [(k, l) for k, l in sq if len(l) > 0]
        ok = len(rq) == len(sq)
        if ok:
            for (rk, rl), (sk, sl) in zip(rq, sq):
                ok = ctx.and_(ok, ctx.eq(rk[0], sk[0]), ctx.eq(rk[1], sk[1]), len(rl) == len(sl))
                if len(rl) == len(sl):
                    for d, r in zip(rl, sl):
                        ok = ctx.and_(ok, ctx.eq(d.tot_pairs, r.tot), ctx.eq(d.pairs_left, r.left), ctx.eq(d.ent_results_array_address, r.ent_addr),
                                      ctx.eq(d.q_array_address, r.q_addr))
        ctx.check(f"{prefix}{which}-request queues (oldest first, pairs left, retired when exhausted)", ok)
    queues(ex._epr_create_requests, spec.Qc, "create")
    queues(ex._epr_recv_requests, spec.Qr, "receive")
    ctx.check(f"{prefix}arrays (pair k fills slice k of its request's result array)", keydict_eq(ctx, ex._app_arrays[0]._arrays, spec.A))
    ctx.check(f"{prefix}unit-module (pair k maps the request's k-th virtual qubit)", list_eq(ctx, ex._qubit_unit_modules[0], spec.UM))
    ctx.check(f"{prefix}in-use set", set_eq(ctx, ex._used_physical_qubit_addresses, spec.USED))


def build():
    R = Registry("C12")
    R.explanation = ("atomic-step contracts: response delivery == spec function on the abstract view for every queue shape up to 3 requests and 2 "
                     "earlier pending responses with all identifiers symbolic; request registration; wait-instruction exit conditions")
    R.trusted = ["specs/epr.py: the matching discipline written from the statement",
                 "pyvc interpreter / container models; z3 arrays + LIA + quantified well-formedness of the qubit-id arrays",
                 "atomicity: other activity only at the base class's yield points (hooks do not touch the EPR bookkeeping)"]
    R.assumptions = [
        "safety reading only: 'eventually consumed' depends on the overriding _wait_to_handle_epr_responses hook and is not claimed "
        "(in the base class the hook recurses immediately: an early response ends in RecursionError -- recorded observation)",
        "well-formed requests: result array holds at least 10*tot entries, qubit-id array holds tot defined ids inside the unit module "
        "(fault paths of keep delivery are C13's)",
        "requests of one application/subroutine; responses of type K and M (type R is not handled by the base class: NotImplementedError)",
        "the subroutine of every outstanding request is still registered (a response for a finished subroutine raises 'Unknown subroutine' before any update)",
    ]
    R.dropped = ["docstrings, type annotations, logging calls"]

    def mk_deliver(n_req, n_old):
        def f(ctx):
            ex, spec, new, tabs = _scenario(ctx, n_req, n_old)
            if ctx.symbolic:
                _install(ctx, ex, False)
            out = ctx.attempt(ex._handle_epr_response, new)
            try:
                ctx.call(epr.deliver, spec, new)
                fault = False
            except Raised as r:
                if not isinstance(r.e, epr.Fault):
                    raise
                fault = True
            ctx.check("no-fault-on-well-formed-requests", out[0] == "ret" and not fault)
            if out[0] == "ret" and not fault:
                _compare(ctx, ex, spec, tabs)
        return f
    import itertools

    def splits(n_req, n_old):
        """big case analyses are split over several obligations by fixing some of the shape choices up front"""
        if n_req + n_old <= 2:
            return [{}]
        names = []
        if n_req >= 2:
            names += ["role0", "socket0", "role1"]
            if n_req + n_old >= 4 or (n_req == 2 and n_old >= 1):
                names += ["socket1"]
        if n_old >= 1 and n_req + n_old >= 3:
            names += ["old0_type", "new_type"]
        if n_old >= 2:
            names += ["old1_type"]
        return [dict(zip(names, c)) for c in itertools.product((0, 1), repeat=len(names))]

    for n_req in (0, 1, 2, 3):
        for n_old in (0, 1, 2):
            heavy = (n_req + n_old) >= 4
            if n_req + n_old >= 5:
                continue        # 3 requests x 2 earlier pending: 128 cases of several minutes each -- beyond the thorough tier's budget (about 2 h); not claimed
            for pre in splits(n_req, n_old):
                tag = "".join(str(v) for v in pre.values())
                R.add(f"deliver[{n_req} requests][{n_old} earlier pending]" + (f"[case {tag}]" if pre else ""), kind="lia",
                      samples=(30 if pre else 60), max_paths=60000, timeout_ms=30000, preset=pre, thorough_only=heavy)(mk_deliver(n_req, n_old))

    # ------------------------------------------------------------- request registration
    def mk_register(which):
        def f(ctx):
            ex, spec, new, tabs = _scenario(ctx, 2, 0)
            if ctx.symbolic:
                _install(ctx, ex, False)
            remote = ctx.int("instr_remote", 1, 5)
            sock = ctx.int("instr_socket", 0, 5)
            tabs_before = {"create": [(k, list(l)) for k, l in (ex._epr_create_requests.entries if ctx.symbolic else ex._epr_create_requests.items())],
                           "recv": [(k, list(l)) for k, l in (ex._epr_recv_requests.entries if ctx.symbolic else ex._epr_recv_requests.items())]}
            arrs = ex._app_arrays[0]._arrays
            ent_addr = (arrs.entries[0][0] if ctx.symbolic else list(arrs)[0])
            q_addr = (arrs.entries[1][0] if ctx.symbolic else list(arrs)[1])
            ent = arrs.entries[0][1] if ctx.symbolic else arrs[ent_addr]
            if which == "recv":
                ctx.call(ex._do_recv_epr, subroutine_id=SID, remote_node_id=remote, epr_socket_id=sock, q_array_address=q_addr,
                         ent_results_array_address=ent_addr)
                table, other = ex._epr_recv_requests, ex._epr_create_requests
            else:
                # create: arguments array with type K and number == len(q array)
                return
            ents = table.entries if ctx.symbolic else list(table.items())
            hit = [l for k, l in ents if ctx.truth(ctx.and_(ctx.eq(k[0], remote), ctx.eq(k[1], sock)))]
            ctx.check("registered-under-(remote node, purpose of the socket)", len(hit) == 1 and len(hit[0]) >= 1)
            if len(hit) == 1 and hit[0]:
                d = hit[0][-1]
                before = [l for k, l in tabs_before["recv"] if ctx.truth(ctx.and_(ctx.eq(k[0], remote), ctx.eq(k[1], sock)))]
                ctx.check("appended-at-the-END-of-the-queue (older requests keep their place)",
                          hit[0][:-1] == (before[0] if before else []))
                n_pairs = ctx.floordiv(ctx.len(ent), 10) if not ctx.symbolic else mk_int(ent.length / 10)
                ctx.check("number-of-pairs-from-result-array-length", ctx.and_(ctx.eq(d.tot_pairs, n_pairs), ctx.eq(d.pairs_left, n_pairs)))
                ctx.check("carries-its-arrays-and-subroutine", ctx.and_(ctx.eq(d.ent_results_array_address, ent_addr), ctx.eq(d.q_array_address, q_addr), d.subroutine_id == SID))
            oents = other.entries if ctx.symbolic else list(other.items())
            ctx.check("other-role-queues-untouched", [(k, list(l)) for k, l in oents if len(l)] == [(k, l) for k, l in tabs_before["create"] if len(l)])
        return f
    R.add("register[recv_epr]", kind="lia", samples=60, max_paths=4000)(mk_register("recv"))

    def register_create(ctx):
        ex = new_executor(ctx, apps=(0,))
        ex._subroutines[SID] = Subroutine(app_id=0)
        if ctx.symbolic:
            _install(ctx, ex, False)
        n = ctx.choice("number", [1, 2, 3])
        ty = ctx.choice("type", [RequestType.K, RequestType.M])
        remote = ctx.int("remote", 1, 5)
        sock = ctx.int("socket", 0, 5)
        args = [ty.value, n] + [None] * (len(LinkLayerCreate._fields) - 4)
        ex._app_arrays[0]._arrays = {7: list(args), 8: [ctx.int(f"vq{k}", 0, 5) for k in range(n)], 9: [None] * (10 * n)}
        older = EprCmdData(SID, 99, 98, None, 2, 1)
        ex._epr_create_requests = collections.defaultdict(list)
        if ctx.symbolic:
            ex._epr_create_requests = M.SymKeyDict("Qc", [((remote, sock), [older])], default_factory=list)
        else:
            ex._epr_create_requests[(remote, sock)] = [older]
        ctx.call(ex._do_create_epr, subroutine_id=SID, remote_node_id=remote, epr_socket_id=sock, q_array_address=8, arg_array_address=7,
                 ent_results_array_address=9)
        q = (ex._epr_create_requests.entries[0][1] if ctx.symbolic else ex._epr_create_requests[(remote, sock)])
        ctx.check("appended-at-the-END-of-the-queue", len(q) == 2 and q[0] is older)
        d = q[-1]
        ctx.check("pairs == requested number", ctx.and_(ctx.eq(d.tot_pairs, n), ctx.eq(d.pairs_left, n)))
        ctx.check("carries-its-arrays-and-subroutine", d.ent_results_array_address == 9 and d.q_array_address == 8 and d.subroutine_id == SID)
        ctx.check("request-handed-to-the-network-stack", len(ex.network_stack.requests) == 1 and ex.network_stack.requests[0] is d.request)
        ctx.check("nothing-registered-for-receive", len(ex._epr_recv_requests) == 0)
    R.add("register[create_epr]", kind="lia", samples=30)(register_create)

    def register_two_sockets(ctx):
        """two requests through EPR sockets that have the SAME local socket id but lead to DIFFERENT remote nodes, on a network stack whose purpose id
        depends on the remote node: each request is registered (and sent) under ITS OWN (remote node, purpose id)"""
        from .exec_common import Stack

        class StackByRemote(Stack):
            def get_purpose_id(self, remote_node_id, epr_socket_id):
                return 10 * remote_node_id + epr_socket_id
        ex = new_executor(ctx, apps=(0,))
        ex.network_stack = StackByRemote()
        ex._subroutines[SID] = Subroutine(app_id=0)
        if ctx.symbolic:
            _install(ctx, ex, False)
        sock = ctx.choice("socket id of both sockets", [0, 1])
        r1 = ctx.choice("remote node of the first socket", [1, 2, 3])
        r2 = ctx.choice("remote node of the second socket", [1, 2, 3])
        roles = (ctx.choice("first request", ["create", "recv"]), ctx.choice("second request", ["create", "recv"]))
        args = [RequestType.K.value, 1] + [None] * (len(LinkLayerCreate._fields) - 4)
        ex._app_arrays[0]._arrays = {7: list(args), 8: [0], 9: [None] * 10, 17: list(args), 18: [1], 19: [None] * 10}
        for k, (role, remote) in enumerate(zip(roles, (r1, r2))):
            base = 10 * k
            if role == "create":
                ctx.call(ex._do_create_epr, subroutine_id=SID, remote_node_id=remote, epr_socket_id=sock, q_array_address=base + 8, arg_array_address=base + 7,
                         ent_results_array_address=base + 9)
            else:
                ctx.call(ex._do_recv_epr, subroutine_id=SID, remote_node_id=remote, epr_socket_id=sock, q_array_address=base + 8, ent_results_array_address=base + 9)
        for k, (role, remote) in enumerate(zip(roles, (r1, r2))):
            table = ex._epr_create_requests if role == "create" else ex._epr_recv_requests
            key = (remote, 10 * remote + sock)
            q = [d for d in table.get(key, []) if d.ent_results_array_address == 10 * k + 9]
            ctx.check(f"request {k}: registered under (its remote node, the purpose id the stack gives for that node and socket)", len(q) == 1)
        sent = ex.network_stack.requests
        want = [(remote, 10 * remote + sock) for role, remote in zip(roles, (r1, r2)) if role == "create"]
        ctx.check("create requests are sent with their own remote node and purpose id", [(r.remote_node_id, r.purpose_id) for r in sent] == want)
    R.add("register[two sockets with the same local id to different nodes]", kind="lia", samples=72, max_paths=400)(register_two_sockets)

    # ------------------------------------------------------------- wait instructions: exit only when defined
    def mk_wait(kind):
        def f(ctx):
            ex = new_executor(ctx, apps=(0,))
            ex._subroutines[SID] = Subroutine(app_id=0)
            symbolic_app_state(ctx, ex, 0, "a", n_arrays=1)
            if ctx.symbolic:
                _install(ctx, ex, False)
            pc0 = ctx.int("pc", 0, None)
            ex._program_counters[SID] = pc0
            arrs = ex._app_arrays[0]._arrays
            addr = arrs.entries[0][0] if ctx.symbolic else list(arrs)[0]
            if kind == "single":
                instr = mk_instr(ctx, core.WaitSingleInstruction, ["entry"])
                instr = core.WaitSingleInstruction(entry=ArrayEntry(Address(addr), instr.entry.index))
                iv = pin_register(ctx, ex, 0, instr.entry.index, "index")
                ctx.assume(ctx.and_(ctx.not_(ctx.is_none(iv)), _ge0(iv)))
                if ctx.symbolic:
                    ctx.assume(mk_bool(iv.val < arrs.entries[0][1].length))
                elif iv >= len(arrs[addr]):
                    raise Skip()
            else:
                cls = core.WaitAllInstruction if kind == "all" else core.WaitAnyInstruction
                instr = mk_instr(ctx, cls, ["slice"])
                instr = cls(slice=ArraySlice(Address(addr), instr.slice.start, instr.slice.stop))
                sv = pin_register(ctx, ex, 0, instr.slice.start, "start")
                ev = pin_register(ctx, ex, 0, instr.slice.stop, "stop")
                ctx.assume(ctx.and_(ctx.not_(ctx.is_none(sv)), ctx.not_(ctx.is_none(ev)), _ge0(sv), _ge0(ev)))
                if ctx.symbolic:
                    ctx.assume(ctx.and_(mk_bool(sv.val <= ev.val), mk_bool(ev.val <= arrs.entries[0][1].length)))
                elif not (sv <= ev <= len(arrs[addr])):
                    raise Skip()
            waits = []
            if ctx.symbolic:
                L = arrs.entries[0][1]

                def do_wait(it_, a, k):
                    # environment step: arbitrary entries may have become defined (or anything else happened to the array)
                    it_.fresh_ctr += 1
                    L.isnone = z3.Array(f"env_n!{it_.fresh_ctr}", z3.IntSort(), z3.BoolSort())
                    L.val = z3.Array(f"env_v!{it_.fresh_ctr}", z3.IntSort(), z3.IntSort())
                    waits.append(1)
                    if len(waits) > 2:
                        raise I.PathAbort()      # the loop has been re-entered from a fresh arbitrary state twice: inductive
                    return None
                ctx.it.stubs[Executor._do_wait] = do_wait
                _install_any_all(ctx)
                gen = ctx.call(ex._execute_command, SID, instr)
                ctx.call(list, gen)
                # exit: awaited entries defined in the state the loop last saw
                i = z3.Int("i!w")
                if kind == "single":
                    idx = iv.val
                    ctx.check("resumes-only-when-the-entry-is-defined", mk_bool(z3.Not(z3.Select(L.isnone, idx))))
                elif kind == "all":
                    ctx.check("resumes-only-when-all-entries-are-defined", mk_bool(z3.Implies(z3.And(i >= sv.val, i < ev.val), z3.Not(z3.Select(L.isnone, i)))))
                else:
                    w = ctx.it.notes.get("any_witness")
                    ctx.check("resumes-only-when-some-entry-is-defined", w is not None and ctx.truth(mk_bool(z3.And(w >= sv.val, w < ev.val, z3.Not(z3.Select(L.isnone, w))))))
                ctx.check("program-counter-advanced-once", ctx.eq(ex._program_counters[SID], ctx.add(pc0, 1)))
            else:
                arr = arrs[addr]
                rng = ctx.rng or random.Random(1)
                steps = []

                def do_wait():
                    steps.append(1)
                    if len(steps) > 50:
                        raise RuntimeError("still waiting")
                    j = rng.randrange(max(1, len(arr)))
                    if arr:
                        arr[j] = 1
                ex._do_wait = do_wait
                try:
                    list(ex._execute_command(SID, instr))
                except RuntimeError as e:
                    if "still waiting" in str(e):
                        raise Skip()
                    raise Raised(e)
                if kind == "single":
                    ctx.check("resumes-only-when-the-entry-is-defined", arr[iv] is not None)
                elif kind == "all":
                    ctx.check("resumes-only-when-all-entries-are-defined", all(x is not None for x in arr[sv:ev]))
                else:
                    ctx.check("resumes-only-when-some-entry-is-defined", any(x is not None for x in arr[sv:ev]))
                ctx.check("program-counter-advanced-once", ex._program_counters[SID] == pc0 + 1)
        return f
    for kind in ("single", "all", "any"):
        R.add(f"wait_{kind}[exit-condition]", kind="lia", samples=60, inductive=True)(mk_wait(kind))

    # ------------------------------------------------------------------ responses in the qlink-interface 1.0 format
    # _handle_epr_response converts them first; the role (directionality), the request key (remote node, purpose) and the
    # pair's data must survive the conversion field by field, for all field values.
    def mk_convert(kind):
        def f(ctx):
            import qlink_interface as q10
            from netqasm import qlink_compat as QC
            common = dict(create_id=ctx.int("create_id", 0, 2 ** 31), directionality_flag=ctx.int("directionality_flag", 0, 1), sequence_number=ctx.int("sequence_number", 0, 2 ** 31),
                          purpose_id=ctx.int("purpose_id", 0, 2 ** 16), remote_node_id=ctx.int("remote_node_id", 0, 2 ** 16), goodness=ctx.int("goodness", 0, 2 ** 31),
                          bell_state=ctx.enum("bell_state", q10.BellState))
            bell_member = common["bell_state"]
            if kind != "error" and ctx.choice("bell_state passed as", ["member", "plain int (as read from the wire)"]) != "member":
                common["bell_state"] = ctx.getattr(bell_member, "value")
            if kind == "keep":
                r = q10.ResCreateAndKeep(logical_qubit_id=ctx.int("logical_qubit_id", 0, 2 ** 16), time_of_goodness=ctx.int("time_of_goodness", 0, 2 ** 31), **common)
                pairs = [("logical_qubit_id", "logical_qubit_id"), ("goodness_time", "time_of_goodness")]
                tp, cls = QC.ReturnType.OK_K, QC.LinkLayerOKTypeK
            elif kind == "measure":
                r = q10.ResMeasureDirectly(measurement_outcome=ctx.int("measurement_outcome", 0, 1), measurement_basis=ctx.enum("measurement_basis", q10.MeasurementBasis), **common)
                pairs = [("measurement_outcome", "measurement_outcome")]
                tp, cls = QC.ReturnType.OK_M, QC.LinkLayerOKTypeM
            else:
                r = q10.ResError(create_id=common["create_id"], error_code=ctx.enum("error_code", q10.ErrorCode), use_sequence_number_range=ctx.choice("range", [False, True]),
                                 sequence_number_low=ctx.int("low", 0, 2 ** 31), sequence_number_high=ctx.int("high", 0, 2 ** 31), origin_node_id=ctx.int("origin", 0, 2 ** 16))
                pairs = [(n, n) for n in ("error_code", "use_sequence_number_range", "sequence_number_low", "sequence_number_high", "origin_node_id")]
                tp, cls = QC.ReturnType.ERR, QC.LinkLayerErr
            out = ctx.call(QC.response_from_qlink_1_0, r)
            ctx.check("converted to the matching response class and type", isinstance(out, cls) and out.type is tp)
            names = ["create_id"] + ([] if kind == "error" else ["directionality_flag", "sequence_number", "purpose_id", "remote_node_id", "goodness"])
            for n in names:
                ctx.check(f"field[{n}] carried over", ctx.eq(getattr(out, n), getattr(r, n)))
            for a, b in pairs:
                ctx.check(f"field[{a}] carried over", _same(ctx, getattr(out, a), getattr(r, b)))
            if kind != "error":
                # the two interfaces NUMBER the Bell states differently: the converted value must be netqasm's member of the same NAME
                ctx.check("field[bell_state] denotes the same Bell state in netqasm's own enumeration", _same_name(ctx, out.bell_state, bell_member, QC.BellState))
            if kind == "measure":
                ctx.check("field[measurement_basis] denotes the same basis in netqasm's own enumeration", _same_name(ctx, out.measurement_basis, r.measurement_basis, QC.Basis))
        return f

    def _same_name(ctx, got, src, enum_cls):
        from pyvc.values import SEnum
        if isinstance(got, SEnum):
            if got.cls is not enum_cls:
                return False
        elif not isinstance(got, enum_cls):
            return False
        ok = True
        for m in type(src).__members__.values() if not isinstance(src, SEnum) else src.cls.__members__.values():
            if ctx.truth(ctx.eq(src, m)):
                ok = ctx.truth(ctx.eq(got, enum_cls[m.name]))
        return ok

    def _same(ctx, a, b):
        import enum as _enum
        from pyvc.values import SEnum
        va = ctx.getattr(a, "value") if isinstance(a, (SEnum, _enum.Enum)) else a
        vb = ctx.getattr(b, "value") if isinstance(b, (SEnum, _enum.Enum)) else b
        na = ctx.getattr(a, "name") if isinstance(a, (SEnum, _enum.Enum)) else None
        nb = ctx.getattr(b, "name") if isinstance(b, (SEnum, _enum.Enum)) else None
        return ctx.and_(ctx.eq(va, vb), ctx.eq(na, nb) if (na is not None and nb is not None and isinstance(na, str) and isinstance(nb, str)) else True)
    for kind in ("keep", "measure", "error"):
        R.add(f"convert[qlink-interface 1.0 {kind} response]", kind="lia", samples=40, max_paths=400)(mk_convert(kind))

    def canary(ctx):
        ex, spec, new, tabs = _scenario(ctx, 2, 0)
        if ctx.symbolic:
            _install(ctx, ex, False)
        before = len(ex._pending_epr_responses)
        out = ctx.attempt(ex._handle_epr_response, new)
        ctx.check("a-delivered-response-is-never-consumed", len(ex._pending_epr_responses) == before + 1)
    R.canary("responses-are-consumed", kind="lia", samples=40, max_paths=20000)(canary)
    return R


def _ge0(v):
    if isinstance(v, M.OptInt):
        return mk_bool(v.val >= 0)
    return v is None or v >= 0


def _install_any_all(ctx):
    """contracts for  any(value is None for value in <slice>)  /  all(...)  over a window of symbolic width"""
    it = ctx.it

    def gen_none(it_, e, sc):
        src = it_.ev(e.generators[0].iter, sc)
        if isinstance(src, M.SymListView):
            return ("is-none-over", src)
        out = []
        s = I.Scope(sc)
        for x in it_.iterate(src):
            it_.assign(e.generators[0].target, x, s)
            out.append(it_.ev(e.elt, s))
        return out
    for fn in ("_instr_wait_all", "_instr_wait_any"):
        it.comp_contracts[(f"netqasm.backend.executor.Executor.{fn}", 0)] = gen_none

    def any_(it_, a, k):
        x = a[0]
        if isinstance(x, tuple) and x and x[0] == "is-none-over":
            v = x[1]
            it_.fresh_ctr += 1
            w = z3.Int(f"anyw!{it_.fresh_ctr}")
            i = z3.Int("i!q")
            inwin = lambda t: z3.And(t >= v.lo, t < v.lo + v.width)
            ex_none = z3.And(inwin(w), z3.Select(v.base.isnone, w))
            if it_.decide(z3.Exists([i], z3.And(inwin(i), z3.Select(v.base.isnone, i)))):
                return True
            it_.pc.append(z3.ForAll([i], z3.Implies(inwin(i), z3.Not(z3.Select(v.base.isnone, i)))))
            return False
        return M._any(it_, x)

    def all_(it_, a, k):
        x = a[0]
        if isinstance(x, tuple) and x and x[0] == "is-none-over":
            v = x[1]
            it_.fresh_ctr += 1
            w = z3.Int(f"allw!{it_.fresh_ctr}")
            i = z3.Int("i!q")
            inwin = lambda t: z3.And(t >= v.lo, t < v.lo + v.width)
            if it_.decide(z3.ForAll([i], z3.Implies(inwin(i), z3.Select(v.base.isnone, i)))):
                return True
            # some entry in the window is defined: name a witness
            it_.pc.append(z3.And(inwin(w), z3.Not(z3.Select(v.base.isnone, w))))
            it_.notes["any_witness"] = w
            return False
        return M._all(it_, x)
    it.stubs[any] = any_
    it.stubs[all] = all_
