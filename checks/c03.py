"""C03 -- assembling text or IR into a subroutine preserves program meaning.

Translation validation against a source-level meaning function (specs/asm_source.py, written from the statement):
for each program schema -- written once as a structured source program with symbolic literal VALUES -- the program is
   (a) rendered to NetQASM text (literals appear as decimal holes, optionally through macros / argument brackets) and
       assembled by the real ``parse_text_subroutine``,                                               [text route]
   (b) built as IR (ICmd / BranchLabel with int literals and Label operands) and assembled by the real
       ``assemble_subroutine``,                                                                       [IR route]
the assembled subroutine is executed on the real base Executor, and compared with the DIRECT interpretation of the
source (a literal denotes its value, a label the instruction that follows it), on every path, for all literal values:
   * every register NAMED BY THE SOURCE ends with the source-level value (a scratch register that collides with a
     named register, or a literal materialised wrongly, is a counterexample);
   * arrays, host-visible returns and allocated qubits are equal;
   * the executed source instructions are the same, in the same order (instruction k of the source is the k-th
     non-inserted instruction of the output: nothing dropped, duplicated, reordered; every branch lands on the
     instruction that followed its label);
   * the only inserted instructions are ``set <scratch R register> <literal>``.
"""
from __future__ import annotations

from netqasm.lang.encoding import RegisterName
from netqasm.lang.instr import core
from netqasm.lang.instr.flavour import VanillaFlavour
from netqasm.lang.ir import BranchLabel, GenericInstr, ICmd, ProtoSubroutine
from netqasm.lang.operand import Address, ArrayEntry, ArraySlice, Label, Register
from netqasm.lang.parsing.text import assemble_subroutine, parse_text_subroutine
from pyvc.harness import Raised, Registry, Skip
from specs import asm_source as S
from specs.asm_source import Addr, Entry, Ins, Lab, Lbl, Lit, R, Slice

from .c04 import _install
from .exec_common import run_bounded, new_executor

LEVEL = "proof"
TECHNIQUE = ("contract-based deductive verification (translation validation): source-level meaning function vs. the real assembler's output executed on the real executor, "
             "symbolic literal values (segment strings through the real text parser), z3 LIA")

I32 = (-2 ** 31, 2 ** 31 - 1)


# ------------------------------------------------------------------ schemas: v(name, lo, hi) -> symbolic literal value
def s_literals_classical(v):
    a, b, c, m = v("a", *I32), v("b", -1000, 1000), v("c", -1000, 1000), v("m", 1, 1000)
    return [
        Ins("set", [R("R", 0), Lit(a)]),
        Ins("add", [R("R", 1), R("R", 0), Lit(b)]),
        Ins("sub", [R("R", 2), Lit(c), R("R", 1)]),
        Ins("add", [R("C", 3), Lit(b), Lit(c)]),
        Ins("addm", [R("R", 3), R("R", 1), Lit(b), Lit(m)]),
        Ins("subm", [R("R", 4), Lit(c), R("R", 2), Lit(m)]),
        Ins("addm", [R("M", 0), Lit(b), Lit(c), R("R", 3)]) if False else Ins("set", [R("M", 0), Lit(c)]),
        Ins("ret_reg", [R("R", 4)]),
        Ins("ret_reg", [R("M", 0)]),
    ]


def s_arrays(v):
    a, b = v("a", *I32), v("b", *I32)
    return [
        Ins("array", [Lit(4), Addr(0)]),
        Ins("array", [Lit(3), Addr(7)], nargs=1),
        Ins("store", [Lit(a), Entry(0, Lit(2))]),
        Ins("set", [R("R", 0), Lit(1)]),
        Ins("store", [Lit(b), Entry(0, R("R", 0))]),
        Ins("load", [R("R", 5), Entry(0, Lit(2))]),
        Ins("store", [R("R", 5), Entry(7, Lit(0))]),
        Ins("lea", [R("R", 6), Addr(7)]),
        Ins("store", [Lit(9), Entry(0, Lit(3))]),
        Ins("undef", [Entry(0, Lit(3))]),
        Ins("load", [R("C", 1), Entry(7, Lit(0))]),
        Ins("ret_arr", [Addr(0)]),
        Ins("ret_arr", [Addr(7)]),
    ]


def s_scratch_vs_index_register(v):
    a = v("a", *I32)
    return [
        Ins("array", [Lit(2), Addr(0)]),
        Ins("store", [Lit(a), Entry(0, R("R", 0))]),        # R0 (== 1 from an earlier subroutine: INIT) is named only as an index
        Ins("ret_arr", [Addr(0)]),
    ]


def s_scratch_vs_slice_register(v):
    return [
        Ins("array", [Lit(3), Addr(0)]),
        Ins("store", [Lit(5), Entry(0, Lit(0))]),
        Ins("store", [Lit(6), Entry(0, Lit(1))]),
        Ins("set", [R("R", 0), Lit(0)]),
        Ins("set", [R("R", 1), Lit(2)]),
        Ins("wait_all", [Slice(0, R("R", 0), R("R", 1))]),
        Ins("wait_any", [Slice(0, Lit(0), R("R", 1))]),
        Ins("wait_all", [Slice(0, R("R", 0), Lit(1))]),
        Ins("wait_single", [Entry(0, Lit(1))]),
        Ins("wait_all", [Slice(0, Lit(0), Lit(2))]),
        Ins("ret_arr", [Addr(0)]),
    ]


def _s_slice_only(start, stop):
    def s(v):
        a = v("a", *I32)
        return [
            Ins("array", [Lit(3), Addr(0)]),
            Ins("store", [Lit(5), Entry(0, Lit(0))]),
            Ins("store", [Lit(6), Entry(0, Lit(1))]),
            Ins("wait_all", [Slice(0, R("R", start), R("R", stop))]),   # both registers come from an earlier subroutine (INIT) and are
            Ins("store", [Lit(a), Entry(0, Lit(2))]),                   # named only as slice bounds; the literals need scratch registers
            Ins("wait_any", [Slice(0, R("R", start), R("R", stop))]),
            Ins("ret_arr", [Addr(0)]),
            Ins("ret_reg", [R("R", 2)]),
        ]
    return s


def s_loop_label_at_top(v):
    n = v("n", 0, 3)
    return [
        Lbl("TOP"),
        Ins("add", [R("R", 0), R("R", 0), Lit(1)]) if False else Ins("set", [R("C", 0), Lit(0)]),
        Ins("add", [R("R", 1), R("C", 0), Lit(n)]),
        Ins("ret_reg", [R("R", 1)]),
    ]


def s_backward_loop_from_index_zero(v):
    n = v("n", 1, 3)            # R0 starts as 0 (INIT)
    return [
        Lbl("TOP"),
        Ins("add", [R("R", 0), R("R", 0), Lit(1)]),
        Ins("blt", [R("R", 0), Lit(n), Lab("TOP")]),
        Ins("ret_reg", [R("R", 0)]),
    ]


def s_labels_everywhere(v):
    r, n = v("r", -2, 2), v("n", 0, 3)
    return [
        Ins("set", [R("R", 0), Lit(r)]),
        Ins("set", [R("R", 1), Lit(0)]),
        Ins("set", [R("R", 2), Lit(0)]),
        Ins("bez", [R("R", 0), Lab("SKIP")]),
        Ins("add", [R("R", 1), R("R", 1), Lit(10)]),          # receives an inserted set
        Lbl("A"), Lbl("B"),                                      # consecutive labels
        Ins("add", [R("R", 2), R("R", 2), Lit(1)]),
        Ins("bge", [R("R", 2), Lit(n), Lab("END")]),           # literal comparison operand + label past the end
        Ins("jmp", [Lab("A")]),
        Lbl("SKIP"),
        Ins("beq", [R("R", 0), Lit(0), Lab("B")]) if False else Ins("add", [R("R", 1), R("R", 1), Lit(100)]),
        Ins("bne", [R("R", 1), Lit(100), Lab("END")]),
        Ins("sub", [R("R", 1), R("R", 1), Lit(1)]),
        Lbl("END"),
    ]


def s_forward_jump_over_literals(v):
    a, r = v("a", *I32), v("r", 0, 1)
    return [
        Ins("set", [R("R", 0), Lit(r)]),
        Ins("set", [R("R", 3), Lit(0)]),
        Ins("bnz", [R("R", 0), Lab("L2")]),
        Ins("add", [R("R", 3), Lit(a), Lit(1)]),
        Ins("jmp", [Lab("DONE")]),
        Lbl("L2"),
        Ins("sub", [R("R", 3), Lit(a), Lit(1)]),
        Lbl("DONE"),
        Ins("ret_reg", [R("R", 3)]),
    ]


def s_labels_spelled_like_operands(v):
    """label names are free identifiers: one that begins like a register (R1_LOOP), contains one (xR2) or looks like a bank letter plus text"""
    a, r = v("a", *I32), v("r", 0, 1)
    return [
        Ins("set", [R("R", 0), Lit(r)]),
        Ins("set", [R("R", 3), Lit(0)]),
        Ins("bnz", [R("R", 0), Lab("R1_LOOP")]),
        Ins("add", [R("R", 3), Lit(a), Lit(1)]),
        Ins("jmp", [Lab("M0_ZERO")]),
        Lbl("R1_LOOP"),
        Ins("sub", [R("R", 3), Lit(a), Lit(1)]),
        Ins("bez", [R("R", 0), Lab("Q2D2")]),
        Ins("add", [R("R", 3), R("R", 3), Lit(7)]),
        Lbl("Q2D2"),
        Lbl("M0_ZERO"),
        Ins("beq", [R("R", 0), Lit(5), Lab("C15x")]),
        Ins("add", [R("R", 3), R("R", 3), Lit(2)]),
        Lbl("C15x"),
        Ins("ret_reg", [R("R", 3)]),
    ]


def s_fifteen_registers(v):
    a = v("a", *I32)
    prog = [Ins("set", [R("R", i), Lit(100 + i)]) for i in range(15)]
    prog += [Ins("add", [R("R", 0), R("R", 14), Lit(a)])]
    prog += [Ins("ret_reg", [R("R", i)]) for i in range(15)]
    return prog


def s_other_banks_first(v):
    a = v("a", *I32)
    prog = [Ins("set", [R("C", i), Lit(i)]) for i in range(16)]
    prog += [Ins("set", [R("Q", i), Lit(i)]) for i in range(4)]
    prog += [Ins("set", [R("R", 0), Lit(50)]), Ins("set", [R("R", 1), Lit(51)]), Ins("set", [R("R", 2), Lit(52)])]
    prog += [Ins("array", [Lit(2), Addr(0)]), Ins("store", [Lit(a), Entry(0, Lit(1))])]
    prog += [Ins("add", [R("C", 0), R("R", 0), Lit(a)])]
    prog += [Ins("ret_reg", [R("R", i)]) for i in range(3)] + [Ins("ret_arr", [Addr(0)])]
    return prog


def s_allocation(v):
    q = v("q", 0, 3)
    return [
        Ins("qalloc", [Lit(q)]),
        Ins("set", [R("Q", 0), Lit(q)]),
        Ins("qfree", [R("Q", 0)]),
        Ins("qalloc", [Lit(1)]),
        Ins("set", [R("Q", 1), Lit(0)]),
        Ins("qalloc", [R("Q", 1)]),
    ]


def s_two_named_registers(i):
    """R{i} and R{j} (every j != i) are the only R registers named; one instruction carries three literals, others two / one:
    wherever the named registers sit, every scratch register is another one"""
    def schema(v, choice):
        j = choice("j", [k for k in range(16) if k != i])
        a, b, c = v("a", *I32), v("b", -1000, 1000), v("c", -1000, 1000)
        return [
            Ins("set", [R("R", i), Lit(11)]),
            Ins("set", [R("R", j), Lit(22)]),
            Ins("array", [Lit(4), Addr(0)]),
            Ins("store", [Lit(a), Entry(0, Lit(2))]),
            Ins("addm", [R("C", 0), Lit(b), Lit(c), Lit(7)]),
            Ins("store", [R("R", j), Entry(0, R("R", i))]) if False else Ins("store", [R("R", j), Entry(0, Lit(1))]),
            Ins("ret_reg", [R("R", i)]), Ins("ret_reg", [R("R", j)]), Ins("ret_reg", [R("C", 0)]), Ins("ret_arr", [Addr(0)]),
        ]
    schema.wants_choice = True
    return schema


def s_shared_operand_list(v):
    a = v("a", -1000, 1000)
    ops = [R("R", 0), R("R", 0), Lit(a)]          # ONE list object used by two instructions
    return [
        Ins("set", [R("R", 0), Lit(1)]),
        Ins("add", ops),
        Ins("set", [R("C", 1), Lit(9)]),
        Ins("sub", [R("C", 2), R("C", 1), Lit(4)]),
        Ins("add", ops),
        Ins("ret_reg", [R("R", 0)]), Ins("ret_reg", [R("C", 2)]),
    ]


SCHEMAS = {
    "literals in every value position of the classical instructions": s_literals_classical,
    "arrays: literal sizes, values, indices; argument brackets": s_arrays,
    "a literal next to a register used only as an array index": s_scratch_vs_index_register,
    "slice bounds: registers and literals": s_scratch_vs_slice_register,
    "literals next to registers used only as slice bounds (start R0, stop R1)": _s_slice_only(0, 1),
    "literals next to registers used only as slice bounds (start R1, stop R0)": _s_slice_only(1, 0),
    "label in front of the first instruction": s_loop_label_at_top,
    "backward loop to index zero": s_backward_loop_from_index_zero,
    "consecutive labels, label past the end, labels around inserted sets": s_labels_everywhere,
    "forward jumps over instructions with literals": s_forward_jump_over_literals,
    "labels spelled like registers": s_labels_spelled_like_operands,
    "fifteen R registers named: one scratch register left": s_fifteen_registers,
    "sixteen registers of other banks named before the R registers": s_other_banks_first,
    "allocation instructions with literal and register operands": s_allocation,
    "two instructions built from one operand list object": s_shared_operand_list,
}


# ------------------------------------------------------------------ IR construction (plain data conversion)
def _ir_operand(o):
    if isinstance(o, R):
        return Register(RegisterName[o.bank], o.i)
    if isinstance(o, Lit):
        return o.v
    if isinstance(o, Lab):
        return Label(o.name)
    if isinstance(o, Addr):
        return Address(o.a)
    if isinstance(o, Entry):
        return ArrayEntry(Address(o.a), _ir_operand(o.idx))
    if isinstance(o, Slice):
        return ArraySlice(Address(o.a), _ir_operand(o.start), _ir_operand(o.stop))
    raise TypeError(o)


def to_proto(prog):
    cmds = []
    shared = {}         # source instructions that share ONE operand list object share one IR operand list too (hand-built IR may do that)
    for it in prog:
        if isinstance(it, Lbl):
            cmds.append(BranchLabel(it.name))
        else:
            if id(it.ops) in shared and it.nargs == 0:
                ops = shared[id(it.ops)]
            else:
                ops = [_ir_operand(o) for o in it.ops]
                shared[id(it.ops)] = ops
            cmds.append(ICmd(instruction=GenericInstr[it.mn.upper()], args=ops[:it.nargs], operands=ops[it.nargs:] if it.nargs else ops))
    return ProtoSubroutine(commands=cmds, netqasm_version=(0, 0), app_id=0)


# ------------------------------------------------------------------ running the output
class Tracer:
    """ghost: remembers which output instruction objects were executed (identity), in order"""
    _pyvc_ghost = True

    def __init__(self):
        self.seq = []


INIT = {"backward loop to index zero": [(("R", 0), 0)],
        "a literal next to a register used only as an array index": [(("R", 0), 1)],
        "literals next to registers used only as slice bounds (start R0, stop R1)": [(("R", 0), 0), (("R", 1), 2), (("R", 2), 11)],
        "literals next to registers used only as slice bounds (start R1, stop R0)": [(("R", 1), 0), (("R", 0), 2), (("R", 2), 11)]}


def _run(ctx, sub, init=()):
    ex = new_executor(ctx, apps=(0,), um_sizes={0: 4})
    if ctx.symbolic:
        _install(ctx, ex, False)
    ex.outcomes = []
    for (bank, i), x in init:
        ctx.call(ex._set_register, 0, Register(RegisterName[bank], i), x)
    return ex, run_bounded(ctx, ex, sub)


def _compare(ctx, prog, sub, route, init=()):
    want = ctx.call(S.run, prog, list(init))
    named = S.named_registers(prog)
    _, src_ins = S.positions(prog)
    out_ins = list(ctx.getattr(sub, "instructions"))
    # ---- structure: the output is the source instructions in order, plus inserted `set R<scratch> <literal>` only
    k, inserted, pos_of = 0, [], {}
    for j, ins in enumerate(out_ins):
        if k < len(src_ins) and ins.mnemonic == src_ins[k].mn and not (
                isinstance(ins, core.SetInstruction) and src_ins[k].mn == "set" and (ins.reg.name.name, ins.reg.index) != (src_ins[k].ops[0].bank, src_ins[k].ops[0].i)):
            pos_of[k] = j
            k += 1
        else:
            inserted.append(j)
    ctx.check(f"{route}: no source instruction is dropped, duplicated or reordered", k == len(src_ins))
    ctx.check(f"{route}: only set-instructions on R registers the source does not name are inserted",
              all(isinstance(i, core.SetInstruction) and i.reg.name == RegisterName.R and ("R", i.reg.index) not in named for i in (out_ins[j] for j in inserted)))
    if k != len(src_ins):
        return
    # ---- every branch lands on the instruction that followed its label (or just past the end)
    where, _ = S.positions(prog)
    ok = True
    for kk, si in enumerate(src_ins):
        if si.mn in S.BRANCHES and isinstance(si.ops[-1], Lab):
            t = where[si.ops[-1].name]
            tgt = out_ins[pos_of[kk]].operands[-1].value
            # first output position belonging to source instruction t: its inserted sets come right before it
            first = pos_of[t] if t < len(src_ins) else len(out_ins)
            while first > 0 and (first - 1) in inserted and (t == 0 or first - 1 > pos_of[t - 1]):
                first -= 1
            ok = ok and ctx.truth(ctx.eq(tgt, first))
    ctx.check(f"{route}: every branch lands on the (expansion of the) instruction that followed its label", ok)
    # ---- behaviour
    ex, err = _run(ctx, sub, init)
    ctx.check(f"{route}: assembled program runs to completion", err is None)
    if err is not None:
        return
    ok = True
    for (bank, i) in sorted(named):
        reg = Register(RegisterName[bank], i)
        if (bank, i) in want.regs:
            ok = ctx.and_(ok, ctx.eq(ctx.call(ex._get_register, 0, reg), want.regs[(bank, i)]))
    ctx.check(f"{route}: every register the source names ends with its source-level value", ok)
    arrs = ex._app_arrays[0]._arrays
    ok = ctx.truth(ctx.eq(ctx.len(arrs), len(want.arrays)))
    for a, vals in want.arrays.items():
        got = ctx.index(arrs, a)
        ok = ctx.and_(ok, ctx.eq(ctx.len(got), len(vals)))
        for j, x in enumerate(vals):
            ok = ctx.and_(ok, ctx.eq(ctx.index(got, j), x))
    ctx.check(f"{route}: arrays equal", ok)
    sm = ex._shared_memories[0]
    ok = True
    for (bank, i), x in want.ret_regs.items():
        ok = ctx.and_(ok, ctx.eq(ctx.call(sm.get_register, Register(RegisterName[bank], i)), x))
    for a, vals in want.ret_arrays.items():
        for j, x in enumerate(vals):
            ok = ctx.and_(ok, ctx.eq(ctx.call(sm.get_array_part, a, j), x))
    ctx.check(f"{route}: values returned to the host equal", ok)
    um = ex._qubit_unit_modules[0]
    alloc = set(j for j in range(len(um)) if not ctx.is_none(ctx.index(um, j)))
    ctx.check(f"{route}: allocated qubits equal", _set_eq(ctx, alloc, want.qubits))


def _set_eq(ctx, concrete, symset):
    vals = list(symset)
    return all(any(ctx.truth(ctx.eq(x, c)) for x in vals) for c in concrete) and all(any(ctx.truth(ctx.eq(x, c)) for c in concrete) for x in vals)


def build():
    R_ = Registry("C03")
    R_.explanation = ("per program schema and for all literal values: real assembler output (text route incl. macros/brackets, and IR route) executed on the real executor "
                      "equals the direct source-level interpretation; structural clauses on order, insertions and branch targets")
    R_.trusted = ["specs/asm_source.py (source-level meaning, renderer)", "pyvc interpreter / segment strings; processor hooks by contract", "the base executor (C04) as the meaning of the OUTPUT program"]
    R_.assumptions = ["program shapes: the schema list (labels at index 0 / consecutive / past the end / around inserted sets, literals in every value position incl. array indices and slice bounds, "
                      "argument brackets, macros incl. prefix-related keys, 15 and 16+ named registers, allocation); literal VALUES symbolic",
                      "fault-free source programs (registers defined before use, indices in range, modulus >= 1)"]
    R_.dropped = ["docstrings, type annotations, logging calls"]

    def mk(name, schema, route):
        def f(ctx):
            def v(n, lo, hi):
                return ctx.int(n, lo, hi)
            prog = schema(v, ctx.choice) if getattr(schema, "wants_choice", False) else schema(v)
            if route == "text":
                text = ctx.call(S.render, prog)
                out = ctx.attempt(parse_text_subroutine, text, flavour=ctx.call(VanillaFlavour))
            else:
                out = ctx.attempt(assemble_subroutine, to_proto(prog), flavour=ctx.call(VanillaFlavour))
            ctx.check(f"{route}: assembler accepts the program", out[0] == "ret")
            if out[0] == "ret":
                _compare(ctx, prog, out[1], route, INIT.get(name, ()))
        return f

    for i in range(16):
        SCHEMAS[f"R{i} and any other R register named; up to three literals in one instruction"] = s_two_named_registers(i)
    for name, schema in SCHEMAS.items():
        for route in ("text", "ir"):
            R_.add(f"schema[{name}][{route}]", kind="exact", samples=8, max_paths=300)(mk(name, schema, route))

    # ---- macros
    def mk_macro(order):
        def f(ctx):
            a = ctx.int("a", *I32)
            r1, r5, r5b, r5c, r1b, r1c, r1d, la, l3 = R("R", 1), R("R", 5), R("R", 5), R("R", 5), R("R", 1), R("R", 1), R("R", 1), Lit(a), Lit(3)
            prog = [
                Ins("set", [r1, Lit(7)]),
                Ins("set", [r5, Lit(8)]),
                Ins("set", [R("R", 12), Lit(9)]),
                Ins("add", [r5b, r5c, la]),
                Ins("add", [r1b, r1c, l3]),
                Ins("sub", [R("R", 2), R("R", 5), r1d]),
                Ins("ret_reg", [R("R", 2)]),
                Ins("ret_reg", [R("R", 12)]),
            ]
            defs = {"idx": "R1", "idx2": "R5", "val": ctx.call(S._txt, la, None), "three": "3"}
            keys = {"short-first": ["idx", "idx2", "three", "val"], "long-first": ["idx2", "idx", "val", "three"]}[order]
            ref = [(r1, "$idx"), (r1b, "$idx"), (r1c, "$idx"), (r1d, "$idx"), (r5, "$idx2"), (r5b, "$idx2"), (r5c, "$idx2"), (la, "$val"), (l3, "$three")]
            text = ctx.call(S.render, prog, [(k, defs[k]) for k in keys], ref)
            out = ctx.attempt(parse_text_subroutine, text, flavour=ctx.call(VanillaFlavour))
            ctx.check("macros: assembler accepts the program", out[0] == "ret")
            if out[0] == "ret":
                _compare(ctx, prog, out[1], "macros")
        return f
    for order in ("long-first", "short-first"):
        R_.add(f"macros[{order}]", kind="exact", samples=4, max_paths=100)(mk_macro(order))

    def canary(ctx):
        a = ctx.int("a", *I32)
        prog = [Ins("set", [R("R", 0), Lit(a)]), Ins("add", [R("R", 1), R("R", 0), Lit(1)]), Ins("ret_reg", [R("R", 1)])]
        wrong = [Ins("set", [R("R", 0), Lit(a)]), Ins("add", [R("R", 1), R("R", 0), Lit(2)]), Ins("ret_reg", [R("R", 1)])]
        sub = ctx.call(parse_text_subroutine, ctx.call(S.render, wrong))
        _compare(ctx, prog, sub, "canary")
    R_.canary("different-literal-differs", kind="exact", samples=1)(canary)
    return R_
