"""C02 -- wire format follows the fixed 7-byte NetQASM command layout.

Contract per concrete instruction class c of every flavour (all operand values symbolic):

    bytes(x.serialize()) == wire.enc(pinned_opcode[c.mnemonic], pinned_kinds[c.mnemonic], x.operands)

with ``wire.enc`` (specs/wire.py) written from the property statement and the pinned
instruction table (specs/opcode_table.json) standing for the published table; the real
``operands`` property supplies the *declared order*, so a field swap done consistently in
encoder and decoder (invisible to the round trip of C01) falsifies the obligation.
Also: decode of foreign (spec-produced) bytes, the subroutine header, purity of
``serialize`` (no state carried between calls), table agreement.
"""
from __future__ import annotations

from netqasm.lang import encoding
from netqasm.lang.instr import core
from netqasm.lang.subroutine import Subroutine
from pyvc.harness import Registry
from pyvc.values import SymBytes
from specs import wire

from .codec_common import FLAVOURS, TABLE, cname, flavour_classes, mk_instr, operand_fields, table_entry

LEVEL = "proof"
TECHNIQUE = ("contract-based deductive verification: bytes(serialize(x)) == wire_spec(x) per instruction class, VCs from "
             "symbolic execution of the real serialisers against a spec function written from the statement, z3 LIA")


def build():
    R = Registry("C02")
    R.explanation = ("function-against-spec-function: real serialisers vs. specs/wire.py over all operand values, for every "
                     "class of every flavour; pinned opcode table agreement; header layout; serialize purity")
    R.trusted = [
        "specs/opcode_table.json is the published instruction table (pinned from release 0.15.0, commit 3397f97)",
        "ctypes model (layout by introspection of the real field descriptors; memcpy semantics; little endian)",
        "dataclass/enum/builtin models of pyvc.models; z3 on linear integer arithmetic with div/mod by constants",
    ]
    R.assumptions = ["operands in their encodable ranges (out-of-range values are C16's subject)"]
    R.dropped = ["docstrings, type annotations, logging calls"]

    seen = set()
    for fname in FLAVOURS:
        classes = flavour_classes(fname)

        def mk_tab(fname=fname, classes=classes):
            def f(ctx):
                pinned = dict(TABLE["core"])
                pinned.update(TABLE[fname])
                have = {c.mnemonic: c for c in classes}
                for m, (op, kinds, shape) in pinned.items():
                    ctx.check(f"mnemonic-present[{m}]", m in have)
                    if m in have:
                        # vanilla mov/meas_basis clash is C01's known finding; here each class is held to its own pin
                        ctx.check(f"opcode[{m}]", have[m].id == op)
                        ctx.check(f"operand-count[{m}]", len(operand_fields(have[m])) == len(kinds))
                for c in classes:
                    ctx.check(f"in-published-table[{c.mnemonic}]", c.mnemonic in pinned or table_entry(c, fname) is not None)
            return f
        R.add(f"table[{fname}]", kind="table", samples=1)(mk_tab())

        for c in classes:
            if c in seen:
                continue
            seen.add(c)
            ent = table_entry(c, fname)
            if ent is None:
                raise AssertionError(f"class {cname(c)} ({c.mnemonic}) not in pinned opcode table")
            op, kinds, shape = ent

            def mk_enc(c=c, op=op, kinds=kinds):
                def f(ctx):
                    x = mk_instr(ctx, c, kinds)
                    raw = ctx.call(x.serialize)
                    ops = ctx.getattr(x, "operands")
                    spec = ctx.call(wire.enc, op, kinds, ops)
                    ctx.check("length-7", ctx.eq(ctx.len(raw), 7))
                    for j in range(7):
                        ctx.check(f"byte{j}", ctx.eq(ctx.index(raw, j), spec[j]))
                return f
            R.add(f"encode[{cname(c)}]", kind="lia", samples=25)(mk_enc())

            def mk_dec(c=c, op=op, kinds=kinds):
                def f(ctx):
                    x = mk_instr(ctx, c, kinds)
                    spec = ctx.call(wire.enc, op, kinds, ctx.getattr(x, "operands"))
                    raw = SymBytes(spec) if ctx.symbolic else bytes(spec)
                    y = ctx.call(c.deserialize_from, raw)
                    ctx.check("decodes-foreign-bytes", ctx.eq(y, x))
                return f
            R.add(f"decode[{cname(c)}]", kind="lia", samples=25)(mk_dec())

            def mk_pure(c=c, op=op, kinds=kinds):
                def f(ctx):
                    # serialize is a function of the instruction alone: a previously serialised, longer command leaves no trace
                    filler = mk_instr(ctx, core.MeasBasisInstruction, ["reg", "reg", "imm8", "imm8", "imm8", "imm8"], prefix="w")
                    ctx.call(filler.serialize)
                    filler2 = mk_instr(ctx, core.CreateEPRInstruction, ["reg"] * 5, prefix="v")
                    ctx.call(filler2.serialize)
                    x = mk_instr(ctx, c, kinds)
                    raw = ctx.call(x.serialize)
                    spec = ctx.call(wire.enc, op, kinds, ctx.getattr(x, "operands"))
                    ctx.check("same-bytes-after-other-serialisations",
                              ctx.and_(*[ctx.eq(ctx.index(raw, j), spec[j]) for j in range(7)]))
                return f
            R.add(f"encode-after-others[{cname(c)}]", kind="lia", samples=25)(mk_pure())

    def header(ctx):
        app = ctx.int("app_id", 0, 65535)
        v0 = ctx.int("v0", 0, 255)
        v1 = ctx.int("v1", 0, 255)
        x = mk_instr(ctx, core.SetInstruction, ["reg", "int32"])
        sub = ctx.call(Subroutine, instructions=[x], app_id=app, netqasm_version=(v0, v1))
        raw = ctx.call(bytes, sub)
        spec = ctx.call(wire.header, v0, v1, app) + ctx.call(wire.enc, 4, ["reg", "int32"], ctx.getattr(x, "operands"))
        ctx.check("length", ctx.eq(ctx.len(raw), 11))
        for j in range(11):
            ctx.check(f"byte{j}", ctx.eq(ctx.index(raw, j), spec[j]))
    R.add("header", kind="lia", samples=30)(header)

    def header_after_update(ctx):
        """the bytes are a function of the subroutine's CURRENT content: encode, update app id / version / an operand, encode again"""
        app, app2 = ctx.int("app_id", 0, 65535), ctx.int("app_id2", 0, 65535)
        v0, v1 = ctx.int("v0", 0, 255), ctx.int("v1", 0, 255)
        x = mk_instr(ctx, core.SetInstruction, ["reg", "int32"])
        sub = ctx.call(Subroutine, instructions=[x], app_id=app, netqasm_version=(v0, v1))
        ctx.call(bytes, sub)
        what = ctx.choice("update", ["app id", "operand", "both", "instantiate"])
        if what in ("app id", "both"):
            ctx.setattr(sub, "app_id", app2)
        elif what == "instantiate":
            ctx.call(sub.instantiate, app2, {})
            x = ctx.index(ctx.getattr(sub, "instructions"), 0)
        else:
            app2 = app
        if what in ("operand", "both"):
            from netqasm.lang.operand import Immediate
            ctx.setattr(x, "imm", Immediate(ctx.int("imm2", -2 ** 31, 2 ** 31 - 1)))
        raw = ctx.call(bytes, sub)
        spec = ctx.call(wire.header, v0, v1, app2) + ctx.call(wire.enc, 4, ["reg", "int32"], ctx.getattr(x, "operands"))
        ctx.check("length", ctx.eq(ctx.len(raw), 11))
        for j in range(11):
            ctx.check(f"byte{j}", ctx.eq(ctx.index(raw, j), spec[j]))
    R.add("header[after an update of the subroutine]", kind="lia", samples=30)(header_after_update)

    # bytes produced by another implementation of the layout are dispatched to the right class by the flavour's decoder
    from netqasm.lang.parsing import binary as _binary
    for fname in FLAVOURS:
        for c in flavour_classes(fname):
            ent = table_entry(c, fname)
            if ent is None:
                continue
            op, kinds, shape = ent

            def mk_disp(fname=fname, c=c, op=op, kinds=kinds):
                def f(ctx):
                    x = mk_instr(ctx, c, kinds)
                    spec = ctx.call(wire.enc, op, kinds, ctx.getattr(x, "operands"))
                    raw = SymBytes(spec) if ctx.symbolic else bytes(spec)
                    d = ctx.call(_binary.Deserializer, ctx.call(FLAVOURS[fname]))
                    y = ctx.call(d.deserialize_command, raw)
                    ctx.check("dispatched-to-the-class-the-table-names", type(y) is c)
                    ctx.check("decodes-foreign-bytes", ctx.eq(y, x))
                return f
            R.add(f"dispatch[{fname}][{cname(c)}]", kind="lia", samples=10)(mk_disp())

    def metadata_struct(ctx):
        ctx.check("metadata-4-bytes", encoding.METADATA_BYTES == 4)
        ctx.check("command-7-bytes", encoding.COMMAND_BYTES == 7)
    R.add("constants", kind="table", samples=1)(metadata_struct)

    def canary(ctx):
        x = mk_instr(ctx, core.MeasInstruction, ["reg", "reg"])
        raw = ctx.call(x.serialize)
        ops = ctx.getattr(x, "operands")
        spec = ctx.call(wire.enc, 32, ["reg", "reg"], [ops[1], ops[0]])
        ctx.check("swapped-operand-order", ctx.and_(*[ctx.eq(ctx.index(raw, j), spec[j]) for j in range(7)]))
    R.canary("operand-order", kind="lia")(canary)

    def canary2(ctx):
        x = mk_instr(ctx, core.SetInstruction, ["reg", "int32"])
        raw = ctx.call(x.serialize)
        ctx.check("big-endian", ctx.eq(ctx.index(raw, 2), ctx.call(wire.le32, x.imm.value)[3]))
    R.canary("endianness", kind="lia")(canary2)
    return R
