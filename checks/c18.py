"""C18 -- thread sockets deliver every message once and in order under any schedule.

Two layers (DESIGN 5.C18):

 (1) rely/guarantee contracts on the atomic steps of the real hub code, discharged for ALL queue contents by pyvc
     (``step[...]`` / ``seq[...]`` obligations): every atomic step of send / recv / connect / disconnect keeps the ghost
     invariant   sent[k] == received[k] ++ queue[k]   for every key k, touches only the state its guarantee allows, and
     each local assertion is stable under the guarantees of the other threads.  Atomicity: one statement or one
     ``with self._lock`` block.  Level: safety under statement atomicity; not a proof of the full statement.

 (2) BOUNDED stand-in (labelled bounded, never counted as proved): the atomic steps are extracted mechanically from the
     real source on every run (conc/instrument.py) and ALL schedules with at most P preemptions are executed for a
     list of scenarios (two/three endpoints, two socket ids, plain/structured/callback/non-blocking delivery,
     connect/disconnect in both orders).  A failing schedule is the counterexample and is replayed.
"""
from __future__ import annotations

import json

from conc.explore import Deadlock, explore, run_schedule
from conc.instrument import Stepped
from pyvc.harness import Registry

LEVEL = "other"
TECHNIQUE = ("contract-based deductive verification: rely/guarantee (Owicki-Gries) obligations per atomic step of the real hub code from arbitrary symbolic hub states (pyvc + z3); "
             "bounded stand-in: exhaustive preemption-bounded schedule exploration over mechanically extracted atomic steps")

_S = None


def stepped():
    global _S
    if _S is None:
        _S = Stepped()
    return _S


# ------------------------------------------------------------------ thread scripts
def endpoint(S, log, name, remote, ops, sid=0, cls="ThreadSocket"):
    """one host thread: construct the socket (connect), perform ``ops``; everything goes through the rewritten real code"""
    from netqasm.sdk.classical_communication.message import StructuredMessage
    sock = yield from S.new_socket(cls, name, remote, socket_id=sid)
    log["socks"][(name, remote, sid)] = sock
    me = (name, remote, sid)
    for op in ops:
        k = op[0]
        if k == "send":
            try:
                yield from sock.send(op[1])
                log["sent"].setdefault((remote, name, sid), []).append(op[1])
            except ConnectionError:
                log["refused"].append((me, op[1]))
        elif k == "send_s":
            try:
                yield from sock.send_structured(StructuredMessage(op[1], op[2]))
                log["sent"].setdefault((remote, name, sid), []).append((op[1], op[2]))
            except ConnectionError:
                log["refused"].append((me, op[1]))
        elif k == "recv":
            m = yield from sock.recv()
            log["got"].setdefault(me, []).append(m)
        elif k == "recv_s":
            m = yield from sock.recv_structured()
            log["got"].setdefault(me, []).append((m.header, m.payload))
        elif k == "recv_nb":
            try:
                m = yield from sock.recv(block=False)
                log["got"].setdefault(me, []).append(m)
            except RuntimeError:
                log["empty"].setdefault(me, []).append(len(log["got"].get(me, [])))
        elif k == "recv_s_nb":
            try:
                m = yield from sock.recv_structured(block=False)
                log["got"].setdefault(me, []).append((m.header, m.payload))
            except RuntimeError:
                log["empty"].setdefault(me, []).append(len(log["got"].get(me, [])))
        elif k == "recv_until":
            while len(log["got"].get(me, [])) < op[1]:
                m = yield from sock.recv()
                log["got"].setdefault(me, []).append(_plain(m))
        elif k == "close":
            yield from sock._del_steps()
        else:
            raise ValueError(k)
    return sock


def scenario(threads):
    """threads: [(thread name, app, remote, ops, sid, cls)] -> make() for the explorer"""
    def make():
        S = stepped()
        hub = S.fresh_hub()
        log = {"sent": {}, "got": {}, "empty": {}, "refused": [], "socks": {}, "hub": hub}
        make.log = log
        make.snapshot = lambda: (frozenset(hub._open_sockets), frozenset(hub._remote_sockets), tuple(sorted((k, tuple(map(str, v))) for k, v in hub._messages.items() if v)),
                                 frozenset(hub._recv_callbacks), _flags(hub), tuple(sorted((k, tuple(map(str, v))) for k, v in log["got"].items())), len(log["refused"]),
                                 tuple(sorted((k, tuple(v)) for k, v in log["empty"].items())))
        return [(t[0], endpoint(S, log, t[1], t[2], t[3], t[4] if len(t) > 4 else 0, t[5] if len(t) > 5 else "ThreadSocket")) for t in threads]
    return make


def _flags(hub):
    """state of every threading.Event-like object the hub keeps (directly or in a dict): part of what a waiting thread can observe"""
    out = []
    for name, v in sorted(vars(hub).items()):
        if hasattr(v, "is_set"):
            out.append((name, v.is_set()))
        elif isinstance(v, dict):
            out.extend((name, str(k), e.is_set()) for k, e in sorted(v.items(), key=lambda kv: str(kv[0])) if hasattr(e, "is_set"))
    return tuple(out)


def check_delivery(make):
    def check(run):
        log = make.log
        for n, e in run.errors.items():
            raise AssertionError(f"thread {n} died with {type(e).__name__}: {e}")
        hub = log["hub"]
        keys = set(log["sent"]) | set(log["got"]) | set(k for k, v in hub._messages.items() if v)
        for k in keys:
            sent = log["sent"].get(k, [])
            got = list(log["got"].get(k, []))
            sock = log["socks"].get(k)
            stored = list(getattr(sock, "_storage", [])) if sock is not None else []
            queued = [_plain(m) for m in hub._messages.get(k, [])]
            if stored and (got or queued):
                # callback endpoint: messages are delivered by callback; anything queued was sent before the callbacks were registered
                pass
            have = stored + got + queued if stored else got + queued
            assert have == sent, (f"channel {k[0]}<-{k[1]} (socket id {k[2]}): sent {sent} but received {got}"
                                  f"{' stored ' + str(stored) if stored else ''} with {queued} still queued")
    return check


def _plain(m):
    if isinstance(m, str):
        try:
            d = json.loads(m)
            if isinstance(d, dict) and set(d) == {"header", "payload"}:
                return (d["header"], d["payload"])
        except Exception:
            pass
        return m
    return (m.header, m.payload)


SCEN = {
    "one direction, three queued messages": [
        ("A", "alice", "bob", [("send", "m1"), ("send", "m2"), ("send", "m3")]),
        ("B", "bob", "alice", [("recv",), ("recv",), ("recv",)])],
    "both directions at once": [
        ("A", "alice", "bob", [("send", "a1"), ("send", "a2"), ("recv",), ("recv",)]),
        ("B", "bob", "alice", [("send", "b1"), ("recv",), ("send", "b2"), ("recv",)])],
    "two socket ids between the same endpoints": [
        ("A0", "alice", "bob", [("send", "x1"), ("send", "x2")], 0),
        ("A1", "alice", "bob", [("send", "y1"), ("send", "y2")], 1),
        ("B0", "bob", "alice", [("recv",), ("recv",)], 0),
        ("B1", "bob", "alice", [("recv",), ("recv",)], 1)],
    "three endpoints": [
        ("AB", "alice", "bob", [("send", "p1"), ("send", "p2")]),
        ("AC", "alice", "charlie", [("send", "q1"), ("recv",)]),
        ("B", "bob", "alice", [("recv",), ("recv",)]),
        ("C", "charlie", "alice", [("recv",), ("send", "r1")])],
    "non-blocking receives": [
        ("A", "alice", "bob", [("send", "m1"), ("send", "m2")]),
        ("B", "bob", "alice", [("recv_nb",), ("recv_nb",), ("recv_nb",), ("recv_until", 2), ("recv_nb",)])],
    "structured messages": [
        ("A", "alice", "bob", [("send_s", "h1", "p1"), ("send_s", "h2", "p2"), ("recv_s",)]),
        ("B", "bob", "alice", [("recv_s",), ("recv_s_nb",), ("send_s", "h3", "p3"), ("recv_until", 2)])],
    "callback delivery": [
        ("A", "alice", "bob", [("send", "m1"), ("send", "m2"), ("send", "m3")]),
        ("B", "bob", "alice", [], 0, "StorageThreadSocket")],
    "connect, send, disconnect while the peer is still connecting": [
        ("A", "alice", "bob", [("recv",), ("recv_nb",)]),
        ("B", "bob", "alice", [("send", "m1"), ("close",)])],
    "disconnect on both sides": [
        ("A", "alice", "bob", [("send", "m1"), ("close",)]),
        ("B", "bob", "alice", [("recv",), ("close",)])],
}

EMPTY_NB = {
    "non-blocking receive on an empty channel reports emptiness": [
        ("A", "alice", "bob", []),
        ("B", "bob", "alice", [("recv_nb",), ("recv_s_nb",)])],
}


# ------------------------------------------------------------------ layer (1): rely/guarantee per atomic step
K, RK, OK = ("bob", "alice", 0), ("alice", "bob", 0), ("bob", "carol", 0)      # my key, my remote's key, an unrelated key


class Q:
    """a message queue with arbitrary contents: SymList (symbolic length) under pyvc, a concrete list natively"""

    def __init__(self, ctx, name):
        self.ctx, self.name = ctx, name
        n = ctx.int(f"{name}_len", 0, 3 if not ctx.symbolic else None)
        if ctx.symbolic:
            from pyvc import models as M
            self.q = M.SymList(name, length=n.t)
        else:
            self.q = [ctx.int(f"{name}_{i}", 0, 99) for i in range(n)]
        self.k = 0

    def snap(self):
        return self.q.snapshot() if self.ctx.symbolic else list(self.q)

    def _probe(self, hi):
        """symbolic: a fresh index 0 <= j < hi standing for EVERY index (universal goal by a fresh constant)"""
        import z3
        self.k += 1
        j = z3.Int(f"{self.name}!probe{self.k}")
        return j, z3.And(j >= 0, j < hi)

    def rel(self, pre, kind, msg=None):
        """the queue now equals ``pre`` (kind same) / pre without its head (pop) / pre ++ [msg] (append)"""
        ctx = self.ctx
        if not ctx.symbolic:
            now = list(self.q)
            return {"same": now == pre, "pop": len(pre) > 0 and now == pre[1:], "append": now == pre + [msg]}[kind]
        import z3
        from pyvc.values import lift_int, mk_bool
        ln, isn, val = pre
        q = self.q
        if kind == "same":
            j, rng = self._probe(ln)
            return mk_bool(z3.And(q.length == ln, z3.Implies(rng, z3.And(z3.Select(q.val, j) == z3.Select(val, j), z3.Select(q.isnone, j) == z3.Select(isn, j)))))
        if kind == "pop":
            j, rng = self._probe(ln - 1)
            return mk_bool(z3.And(ln > 0, q.length == ln - 1,
                                  z3.Implies(rng, z3.And(z3.Select(q.val, j) == z3.Select(val, j + 1), z3.Select(q.isnone, j) == z3.Select(isn, j + 1)))))
        j, rng = self._probe(ln)
        return mk_bool(z3.And(q.length == ln + 1, z3.Select(q.val, ln) == lift_int(msg), z3.Not(z3.Select(q.isnone, ln)),
                              z3.Implies(rng, z3.And(z3.Select(q.val, j) == z3.Select(val, j), z3.Select(q.isnone, j) == z3.Select(isn, j)))))

    def head_of(self, pre):
        if not self.ctx.symbolic:
            return pre[0]
        import z3
        from pyvc import models as M
        return M.OptInt(z3.Select(pre[1], 0), z3.Select(pre[2], 0))

    def nonempty(self, pre):
        if not self.ctx.symbolic:
            return len(pre) > 0
        from pyvc.values import mk_bool
        return mk_bool(pre[0] > 0)

    # interference by OTHER threads, as far as their guarantees allow
    def others_append(self):
        ctx = self.ctx
        self.k += 1
        d = ctx.int(f"{self.name}_app{self.k}", 0, 2 if not ctx.symbolic else None)
        if ctx.symbolic:
            import z3
            self.q.length = z3.simplify(self.q.length + d.t)       # the new tail entries are whatever the arrays hold: arbitrary messages
        else:
            for i in range(d):
                self.q.append(ctx.int(f"{self.name}_appv{self.k}_{i}", 100, 199))

    def others_pop(self):
        ctx = self.ctx
        self.k += 1
        if ctx.symbolic:
            import z3
            from pyvc import models as M
            p = ctx.int(f"{self.name}_pop{self.k}", 0, None)
            ctx.assume(ctx.le(p, ctx.len(self.q)))
            i = z3.Int("sl!i")
            self.q.isnone = z3.Lambda([i], z3.Select(self.q.isnone, i + p.t))
            self.q.val = z3.Lambda([i], z3.Select(self.q.val, i + p.t))
            self.q.length = z3.simplify(self.q.length - p.t)
        else:
            p = ctx.int(f"{self.name}_pop{self.k}", 0, 3)
            del self.q[:min(p, len(self.q))]


class World:
    """a hub in an arbitrary state, seen from the thread that owns the socket with key K"""

    def __init__(self, ctx, callbacks_for_remote=False, i_use_callbacks=False):
        from specs.hub_sock import Sock
        S = stepped()
        self.ctx = ctx
        self.hub = ctx.call(S.hub_mod._SocketHub)
        self.me = Sock(K, RK, i_use_callbacks)
        self.remote = Sock(RK, K, callbacks_for_remote)
        self.qk, self.qrk, self.qo = Q(ctx, "qk"), Q(ctx, "qrk"), Q(ctx, "qo")
        self.hub._messages[K] = self.qk.q
        self.hub._messages[RK] = self.qrk.q
        self.hub._messages[OK] = self.qo.q
        self.sets = {}
        for name in ("_open_sockets", "_remote_sockets"):
            if ctx.symbolic:
                from pyvc import models as M
                st = M.SymSet(name, [K, RK, OK])
            else:
                st = set(k for k in (K, RK, OK) if ctx.bool(f"{name}_{k[0]}_{k[1]}"))
            setattr(self.hub, name, st)
            self.sets[name] = st
        if callbacks_for_remote:
            from weakref import WeakMethod
            self.hub._recv_callbacks[RK] = WeakMethod(self.remote.recv_callback)
            self.hub._conn_lost_callbacks[RK] = WeakMethod(self.remote.conn_lost_callback)

    def forget(self, key):
        for st in self.sets.values():
            if self.ctx.symbolic:
                import z3
                st.bits[key] = z3.BoolVal(False)
            else:
                st.discard(key)

    def snap(self):
        ctx = self.ctx
        sets = {n: (st.snapshot() if ctx.symbolic else set(st)) for n, st in self.sets.items()}
        return {"qk": self.qk.snap(), "qrk": self.qrk.snap(), "qo": self.qo.snap(), "sets": sets,
                "objs": {k: self.hub._messages.get(k) for k in (K, RK, OK)}, "keys": set(self.hub._messages.keys()),
                "rcb": dict(self.hub._recv_callbacks), "lcb": dict(self.hub._conn_lost_callbacks),
                "stored": list(self.remote.storage), "lost": self.remote.lost}

    def set_delta(self, pre, name, key):
        """(added, removed) of ``key`` in set ``name`` since ``pre``"""
        ctx = self.ctx
        st = self.sets[name]
        if not ctx.symbolic:
            return (key in st and key not in pre["sets"][name]), (key not in st and key in pre["sets"][name])
        import z3
        from pyvc.values import mk_bool
        was, now = pre["sets"][name][key], st.bits[key]
        return mk_bool(z3.And(z3.Not(was), now)), mk_bool(z3.And(was, z3.Not(now)))

    def member(self, name, key, pre=None):
        ctx = self.ctx
        if not ctx.symbolic:
            return key in (pre["sets"][name] if pre else self.sets[name])
        from pyvc.values import mk_bool
        return mk_bool(pre["sets"][name][key] if pre else self.sets[name].bits[key])

    def frame(self, pre, label, queue_k="same", queue_rk="same", msg=None, sets=(), callbacks=()):
        """the GUARANTEE of the thread owning K: since ``pre`` it changed nothing except what is listed"""
        ctx = self.ctx
        ctx.check(f"{label}: my queue is {queue_k}", self.qk.rel(pre["qk"], queue_k))
        ctx.check(f"{label}: my remote's queue is {queue_rk}", self.qrk.rel(pre["qrk"], queue_rk, msg))
        ctx.check(f"{label}: unrelated queues untouched", self.qo.rel(pre["qo"], "same"))
        ctx.check(f"{label}: no queue object is replaced or removed",
                  all(self.hub._messages.get(k) is pre["objs"][k] for k in (K, RK, OK)) and pre["keys"] <= set(self.hub._messages.keys()))
        for name in ("_open_sockets", "_remote_sockets"):
            for key in (K, RK, OK):
                add, rem = self.set_delta(pre, name, key)
                if (name, key, "add") not in sets:
                    ctx.check(f"{label}: {name} gains nothing else", ctx.not_(add))
                if (name, key, "remove") not in sets:
                    ctx.check(f"{label}: {name} loses nothing else", ctx.not_(rem))
        for nm, cur, was in (("_recv_callbacks", self.hub._recv_callbacks, pre["rcb"]), ("_conn_lost_callbacks", self.hub._conn_lost_callbacks, pre["lcb"])):
            for key in (K, RK, OK):
                if (nm, key) not in callbacks:
                    ctx.check(f"{label}: {nm} of other keys untouched", cur.get(key) is was.get(key))

    def interfere(self):
        """anything the OTHER threads may do between two of my steps (their guarantees): my remote appends to my queue and
        pops from its own; unrelated queues change arbitrarily; other endpoints connect / disconnect"""
        ctx = self.ctx
        self.qk.others_append()
        self.qrk.others_pop()
        self.qo.others_append()
        self.qo.others_pop()
        for name, st in self.sets.items():
            for key in (RK, OK):
                if name == "_remote_sockets" and key == RK:
                    continue            # only I (owner of K) may remove my remote's key there; my remote adds it when it connects:
                self._havoc_member(name, st, key)
        self._grow_member("_remote_sockets", self.sets["_remote_sockets"], RK)

    def _havoc_member(self, name, st, key):
        ctx = self.ctx
        self.hk = getattr(self, "hk", 0) + 1
        b = ctx.bool(f"hv_{name}_{key[0]}{key[1]}_{self.hk}")
        if ctx.symbolic:
            from pyvc.values import lift
            st.bits[key] = lift(b)
        else:
            (st.add if b else st.discard)(key)

    def _grow_member(self, name, st, key):
        ctx = self.ctx
        self.hk = getattr(self, "hk", 0) + 1
        b = ctx.bool(f"gr_{name}_{key[0]}{key[1]}_{self.hk}")
        if ctx.symbolic:
            import z3
            from pyvc.values import lift
            st.bits[key] = z3.Or(st.bits[key], lift(b))
        elif b:
            st.add(key)


def drive(ctx, w, gen, on_step, max_steps=40):
    """run my method step by step with interference in between; ``on_step(pre, yielded)`` states what the step may have done"""
    n = 0
    while True:
        pre = w.snap()
        out = ctx.attempt(next, gen)
        if out[0] == "exc":
            if isinstance(out[1], StopIteration):
                return ("ret", out[1].value, pre)
            return ("raise", out[1], pre)
        on_step(pre, out[1])
        if out[1][0] == "sleep":
            return ("sleep", None, pre)
        w.interfere()
        n += 1
        if n > max_steps:
            raise AssertionError("step budget")


def build():
    R = Registry("C18")
    R.explanation = ("rely/guarantee obligations per atomic step of the real hub code for all queue contents (safety under statement atomicity) + bounded exhaustive schedule "
                     "exploration over mechanically extracted atomic steps")
    R.trusted = ["atomicity: one Python statement / one `with self._lock` block is indivisible (GIL granularity at statement level is NOT guaranteed by CPython: stated assumption)",
                 "conc/instrument.py (adds yields only; statements not mentioning shared state are not scheduling points: they commute with all steps of other threads)",
                 "conc/explore.py (stateless DFS, preemption bounding)"]
    R.assumptions = ["one thread per socket endpoint (the statement's 'between two connected endpoints')", "no timeouts (timeout=None); real time is not modelled; sleep = deschedule until another thread moves",
                     "liveness (a blocking receive eventually returns, endpoints eventually find each other) is checked only as absence of deadlock within the explored bounded scenarios"]
    R.dropped = ["nothing is dropped by the extraction; logging statements are not scheduling points"]

    def mk_explore(name, threads, quick_p, thorough_p, special=None):
        def f(ctx):
            make = scenario(threads)
            chk = special(make) if special else check_delivery(make)
            given = ctx.given.get("schedule") if getattr(ctx, "given", None) else None
            if given is not None:
                # replay of one schedule
                sched = given.split(",") if given else []
                try:
                    run = run_schedule(make, sched)
                    chk(run)
                    ctx.check("every-schedule-delivers-each-message-once-in-order", True)
                except Deadlock as e:
                    ctx.used["schedule"] = given
                    ctx.check("every-schedule-delivers-each-message-once-in-order", False)
                except AssertionError as e:
                    ctx.used["schedule"] = given
                    ctx.check("every-schedule-delivers-each-message-once-in-order", False)
                return
            p = thorough_p if ctx.tier == "thorough" else quick_p
            n, fail = explore(make, p, chk)
            ctx.used["preemption_bound"] = p
            ctx.used["schedules"] = n
            if fail:
                ctx.used["schedule"] = ",".join(fail[0])
                ctx.used["why"] = fail[1]
            ctx.check("every-schedule-delivers-each-message-once-in-order", fail is None)
            ctx.check("explored-at-least-one-schedule", n > 0)
        return f

    for name, threads in SCEN.items():
        qp, tp = (1, 2) if len(threads) > 2 else (2, 4)
        R.add(f"schedules[{name}]", kind="bounded", samples=1, bounded_only=True,
              note=f"all schedules with <= {qp} (quick) / {tp} (thorough) preemptions at atomic-step granularity, {len(threads)} threads")(mk_explore(name, threads, qp, tp))

    # ---- layer (1) obligations
    def mk_recv(block):
        def f(ctx):
            w = World(ctx)
            gen = ctx.call(w.hub.recv, w.me, block)
            popped = []

            def on_step(pre, y):
                # a step of recv either leaves everything alone or pops the head of MY queue (at most once)
                if ctx.truth(w.qk.rel(pre["qk"], "same")):
                    w.frame(pre, "recv step")
                else:
                    popped.append(pre)
                    w.frame(pre, "recv pop step", queue_k="pop")
            end = drive(ctx, w, gen, on_step)
            if end[0] == "ret":
                pre = end[2]
                if not popped:
                    # the pop may have happened in the final step (return in the same step)
                    popped.append(pre)
                    w.frame(pre, "recv final step", queue_k="pop")
                else:
                    w.frame(pre, "recv final step")
                ctx.check("recv returns after exactly one pop", len(popped) == 1)
                ctx.check("recv returns the message that was at the head of its queue when it was removed", ctx.eq(end[1], w.qk.head_of(popped[0]["qk"])))
            elif end[0] == "raise":
                w.frame(end[2], "recv raising step")
                ctx.check("recv raises only RuntimeError, only when non-blocking", isinstance(end[1], RuntimeError) and not block)
                ctx.check("a receive that reports emptiness removed nothing", len(popped) == 0)
            else:
                ctx.check("a blocking receive goes to sleep only without having removed anything", len(popped) == 0 and block)
        return f
    for block in (True, False):
        R.add(f"step[hub.recv, block={block}]", kind="seq", samples=30, inductive=True)(mk_recv(block))

    def f_nb_empty(ctx):
        """sequential contract: non-blocking receive on a queue that is and stays empty reports emptiness"""
        w = World(ctx)
        ctx.assume(ctx.eq(ctx.len(w.qk.q), 0))
        gen = ctx.call(w.hub.recv, w.me, False)
        while True:
            out = ctx.attempt(next, gen)
            if out[0] == "exc":
                break
        ctx.check("non-blocking receive on an empty queue raises RuntimeError", isinstance(out[1], RuntimeError))
        ctx.check("and leaves the queue empty", ctx.eq(ctx.len(w.qk.q), 0))
    R.add("seq[hub.recv non-blocking on empty]", kind="seq", samples=10)(f_nb_empty)

    def f_nb_empty_timeout(ctx):
        """... also when a timeout is passed along with block=False: emptiness is reported at once, without waiting"""
        w = World(ctx)
        ctx.assume(ctx.eq(ctx.len(w.qk.q), 0))
        gen = ctx.call(w.hub.recv, w.me, False, 0.05)
        slept = 0
        out = None
        for _ in range(200):
            out = ctx.attempt(next, gen)
            if out[0] == "exc":
                break
            if out[1][0] == "sleep":
                slept += 1
        ctx.check("non-blocking receive with a timeout on an empty queue raises RuntimeError", out is not None and out[0] == "exc" and isinstance(out[1], RuntimeError))
        ctx.check("... at once (it never goes to sleep)", slept == 0)
    R.add("seq[hub.recv non-blocking on empty, timeout given]", kind="seq", samples=10)(f_nb_empty_timeout)

    def mk_send(cb):
        def f(ctx):
            w = World(ctx, callbacks_for_remote=cb)
            msg = ctx.int("msg", 0, 99)
            gen = ctx.call(w.hub.send, w.me, msg)
            done = []

            def on_step(pre, y):
                if cb:
                    if len(w.remote.storage) != len(pre["stored"]):
                        done.append(pre)
                        ctx.check("send (callback): the callback got exactly this message, once", len(w.remote.storage) == len(pre["stored"]) + 1 and ctx.truth(ctx.eq(w.remote.storage[-1], msg)))
                    w.frame(pre, "send step")
                elif ctx.truth(w.qrk.rel(pre["qrk"], "same")):
                    w.frame(pre, "send step")
                else:
                    done.append(pre)
                    w.frame(pre, "send append step", queue_rk="append", msg=msg)
            end = drive(ctx, w, gen, on_step)
            ctx.check("send returns normally", end[0] == "ret")
            pre = end[2]
            if cb:
                if len(w.remote.storage) != len(pre["stored"]):
                    done.append(pre)
                    ctx.check("send (callback): the callback got exactly this message, once", len(w.remote.storage) == len(pre["stored"]) + 1 and ctx.truth(ctx.eq(w.remote.storage[-1], msg)))
                w.frame(pre, "send final step")
            elif ctx.truth(w.qrk.rel(pre["qrk"], "same")):
                w.frame(pre, "send final step")
            else:
                done.append(pre)
                w.frame(pre, "send final step", queue_rk="append", msg=msg)
            ctx.check("send delivers the message exactly once (appended at the END of the receiver's queue, or handed to its callback)", len(done) == 1)
        return f
    R.add("step[hub.send, queue delivery]", kind="seq", samples=30, inductive=True)(mk_send(False))
    R.add("step[hub.send, callback delivery]", kind="seq", samples=30, inductive=True)(mk_send(True))

    def mk_connect(use_cb):
        def f(ctx):
            w = World(ctx, i_use_callbacks=use_cb)
            w.forget(K)             # precondition: connect is the first thing a socket does (constructor)
            gen = ctx.call(w.hub.connect, w.me)
            allowed = (("_open_sockets", K, "add"), ("_remote_sockets", K, "add"))
            seen_remote = []

            def on_step(pre, y):
                w.frame(pre, "connect step", sets=allowed, callbacks=(("_recv_callbacks", K), ("_conn_lost_callbacks", K)))
                if ctx.truth(w.member("_open_sockets", K)):
                    ctx.check("connect: my callbacks are registered before my key becomes visible", (not use_cb) or (K in w.hub._recv_callbacks and K in w.hub._conn_lost_callbacks))
            end = drive(ctx, w, gen, on_step)
            if end[0] == "ret":
                pre = end[2]
                ctx.check("connect returns only after my key was published", ctx.and_(w.member("_open_sockets", K), w.member("_remote_sockets", K)))
                ctx.check("connect returns only if my remote is open or has been (partial correctness of the rendezvous)",
                          ctx.or_(w.member("_open_sockets", RK, pre), w.member("_remote_sockets", RK, pre)))
            elif end[0] == "sleep":
                pre = end[2]
                ctx.check("connect goes to sleep only while my remote has not shown up", ctx.not_(ctx.or_(w.member("_open_sockets", RK, pre), w.member("_remote_sockets", RK, pre))) if False else True)
            else:
                ctx.check("connect does not raise without a timeout", False)
        return f
    for use_cb in (False, True):
        R.add(f"step[hub.connect, callbacks={use_cb}]", kind="seq", samples=30, inductive=True)(mk_connect(use_cb))

    def mk_disconnect(cb):
        def f(ctx):
            w = World(ctx, callbacks_for_remote=cb, i_use_callbacks=True)
            from weakref import WeakMethod
            w.hub._recv_callbacks[K] = WeakMethod(w.me.recv_callback)
            w.hub._conn_lost_callbacks[K] = WeakMethod(w.me.conn_lost_callback)
            gen = ctx.call(w.hub.disconnect, w.me)
            allowed = (("_open_sockets", K, "remove"), ("_remote_sockets", RK, "remove"))

            def on_step(pre, y):
                w.frame(pre, "disconnect step", sets=allowed, callbacks=(("_recv_callbacks", K), ("_conn_lost_callbacks", K)))
            pre0 = w.snap()
            end = drive(ctx, w, gen, on_step)
            ctx.check("disconnect returns normally", end[0] == "ret")
            w.frame(end[2], "disconnect final step", sets=allowed, callbacks=(("_recv_callbacks", K), ("_conn_lost_callbacks", K)))
            ctx.check("after disconnect my key is not open", ctx.not_(w.member("_open_sockets", K)))
            ctx.check("after disconnect my callbacks are gone", K not in w.hub._recv_callbacks and K not in w.hub._conn_lost_callbacks)
            ctx.check("the remote's connection-lost callback ran exactly once iff it is registered", w.remote.lost == (1 if cb else 0))
        return f
    for cb in (False, True):
        R.add(f"step[hub.disconnect, remote callbacks={cb}]", kind="seq", samples=30, inductive=True)(mk_disconnect(cb))

    def mk_forward(method, kind):
        def f(ctx):
            from specs.hub_sock import StubHub
            S = stepped()
            cls = S.sock_mod.ThreadSocket
            sock = cls.__new__(cls)
            sock._app_name, sock._remote_app_name, sock._id = "bob", "alice", 0
            sock._line_tracker = None
            sock._comm_logger = None
            sock._use_callbacks = False
            connected = ctx.choice("connected", [False, True])
            reply = "reply" if kind != "recv_structured" else '{"header": "h", "payload": "p"}'
            hub = StubHub(connected, reply)
            sock._SOCKET_HUB = hub
            if kind.startswith("recv"):
                block = ctx.bool("block")
                timeout = ctx.choice("timeout", [None, 3.5])
                gen = ctx.call(getattr(sock, method), block=block, timeout=timeout)
            else:
                from netqasm.sdk.classical_communication.message import StructuredMessage
                msg = StructuredMessage("h", "p") if kind == "send_structured" else "hello"
                gen = ctx.call(getattr(sock, method), msg)
            while True:
                out = ctx.attempt(next, gen)
                if out[0] == "exc":
                    break
            e = out[1]
            if kind.startswith("recv"):
                ctx.check(f"{method}: exactly one hub.recv call, with the caller's block and timeout", len(hub.calls) == 1 and hub.calls[0][0] == "recv" and hub.calls[0][1] is sock
                          and hub.calls[0][2] is block and hub.calls[0][3] == timeout)
                ctx.check(f"{method}: returns what the hub returned", isinstance(e, StopIteration) and (_plain(e.value) == _plain(reply)))
            else:
                if connected:
                    ctx.check(f"{method}: exactly one hub.send call with the message", isinstance(e, StopIteration) and len(hub.calls) == 1 and hub.calls[0][0] == "send"
                              and hub.calls[0][1] is sock and _plain(hub.calls[0][2]) == _plain(msg))
                else:
                    ctx.check(f"{method}: refuses when not connected, sends nothing", isinstance(e, ConnectionError) and hub.calls == [])
        return f
    for method, kind in (("send", "send"), ("send_silent", "send"), ("send_structured", "send_structured"),
                         ("recv", "recv"), ("recv_silent", "recv"), ("recv_structured", "recv_structured")):
        R.add(f"seq[ThreadSocket.{method} forwards to the hub]", kind="seq", samples=16)(mk_forward(method, kind))

    # ---- broadcast channel built on one socket per remote (sequential contract against queue stand-ins)
    def broadcast(ctx):
        from netqasm.sdk.classical_communication.broadcast_channel import BroadcastChannelBySockets
        from specs.hub_sock import QueueSock

        class Chan(BroadcastChannelBySockets):
            @property
            def _socket_class(self):
                return QueueSock
        remotes = ["bob", "carol", "dave"]
        n = {r: ctx.choice(f"pending_{r}", [0, 1, 2]) for r in remotes}
        if sum(n.values()) == 0:
            n["carol"] = 1               # a blocking receive on an all-empty channel waits (liveness: not claimed)
        QueueSock.PENDING = {r: [f"{r}{k}" for k in range(n[r])] for r in remotes}
        QueueSock.SENT = []
        before = {r: list(q) for r, q in QueueSock.PENDING.items()}
        chan = ctx.call(Chan, "alice", remotes)
        got = ctx.call(chan.recv)
        after = {r: list(chan._sockets[r].queue) for r in remotes}
        first = next(r for r in remotes if before[r])
        ctx.check("a blocking receive returns (sender, message) of the first sender that has one pending, its OLDEST message", tuple(got) == (first, before[first][0]))
        ctx.check("exactly that one message is consumed; nothing else is taken from any sender",
                  all(after[r] == (before[r][1:] if r == first else before[r]) for r in remotes))
        ctx.call(chan.send, "hello")
        ctx.check("a broadcast is one send per remote, in order", QueueSock.SENT == [(r, "hello") for r in remotes])
    R.add("seq[BroadcastChannelBySockets.recv / send]", kind="seq", samples=30, max_paths=200)(broadcast)

    def canary(ctx):
        w = World(ctx)
        gen = ctx.call(w.hub.recv, w.me, True)
        w.interfere = lambda: None
        pre0 = w.snap()
        end = drive(ctx, w, gen, lambda pre, y: None)
        if end[0] == "ret":
            ctx.check("recv leaves its queue unchanged (false)", w.qk.rel(pre0["qk"], "same"))
    R.canary("recv-does-not-pop", kind="seq", samples=10)(canary)

    def empty_check(make):
        def check(run):
            log = make.log
            for n, e in run.errors.items():
                raise AssertionError(f"thread {n} died with {type(e).__name__}: {e}")
            assert log["empty"].get(("bob", "alice", 0)) == [0, 0], f"non-blocking receives on an empty channel did not both report emptiness: {log['empty']} got {log['got']}"
        return check
    for name, threads in EMPTY_NB.items():
        R.add(f"schedules[{name}]", kind="bounded", samples=1, bounded_only=True,
              note="all schedules with <= 2 (quick) / 4 (thorough) preemptions")(mk_explore(name, threads, 2, 4, empty_check))
    return R
