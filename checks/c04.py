"""C04 -- executor implements the NetQASM classical semantics and faults precisely.

Contract per instruction handler (function against a spec function):

    for an ARBITRARY pre-state of the executor (symbolic register files, arrays of symbolic length at
    symbolic addresses, symbolic unit module / in-use set satisfying the representation invariant,
    symbolic program counter) and ARBITRARY operands of the instruction,

        view(executor')  ==  isa.step(view(executor), instr)        if isa.step does not fault
        the executor raises and view(executor') == view(executor)   if it does      (no partial effect)

    and the state of every other application and other subroutine's counter is unchanged (frame).

``isa.step`` (specs/isa.py) is written from the statement.  The fetch loop ``_execute_commands`` is verified
with a loop contract (one iteration from a havoc'd counter; ``_execute_command`` replaced by its contract):
it fetches ``commands[pc]``, stops at the first faulting instruction and raises an error of the same class
whose message starts with "At line <pc>: ".  The step bound of the statement (termination) is not claimed.
"""
from __future__ import annotations

import z3

from netqasm.backend.executor import Executor
from netqasm.lang.instr import core, nv, vanilla
from netqasm.lang.subroutine import Subroutine
from netqasm.runtime import settings
from netqasm.sdk import shared_memory as SM
from pyvc import interp as I
from pyvc import models as M
from pyvc.harness import Raised, Registry
from pyvc.values import SInt, lift_int, mk_bool, mk_int
from specs import isa

from .codec_common import mk_instr, operand_fields, table_entry
from .exec_common import (BANKS, check_views_equal, new_executor, pin_entry, pin_register, spec_state,
                          symbolic_app_state, symbolic_qubit_state, view, hook_stubs)

LEVEL = "proof"
TECHNIQUE = ("contract-based deductive verification: per-handler contract view' == isa.step(view) over arbitrary symbolic pre-states, "
             "VCs by symbolic execution of the real handlers and of the spec function, z3 (LIA + arrays + quantified invariants); loop contract for the fetch loop")

CLASSICAL = [core.SetInstruction, core.LeaInstruction, core.ArrayInstruction, core.LoadInstruction, core.StoreInstruction,
             core.UndefInstruction, core.AddInstruction, core.SubInstruction, core.AddmInstruction, core.SubmInstruction,
             core.JmpInstruction, core.BezInstruction, core.BnzInstruction, core.BeqInstruction, core.BneInstruction,
             core.BltInstruction, core.BgeInstruction, core.RetRegInstruction, core.RetArrInstruction,
             core.QAllocInstruction, core.QFreeInstruction]
QUANTUM = [core.InitInstruction, core.MeasInstruction, vanilla.GateXInstruction, vanilla.GateHInstruction, vanilla.GateTInstruction,
           vanilla.CnotInstruction, vanilla.CphaseInstruction, vanilla.RotZInstruction, nv.RotXInstruction, nv.ControlledRotXInstruction]

SID, SID_OTHER = 5, 6


def _install(ctx, ex, hw):
    """contracts standing in for callees outside the claim: processor hooks, hardware flag, spec primitive"""
    if not ctx.symbolic:
        return
    it = ctx.it
    st = dict(hook_stubs(ex))
    st[settings.get_is_using_hardware] = lambda it_, a, k: hw

    def min_unused(it_, a, k):
        used = a[0]
        it_.fresh_ctr += 1
        p = z3.Int(f"minfree!{it_.fresh_ctr}")
        q = z3.Int("q!")
        it_.pc.append(z3.And(p >= 0, z3.Not(z3.Select(used.arr, p)),
                             z3.ForAll([q], z3.Implies(z3.And(q >= 0, q < p), z3.Select(used.arr, q)))))
        return SInt(p)
    st[isa.min_unused] = min_unused
    it.stubs = st

    def first_unused(it_, stn, sc):
        """loop contract of the scan for the first unused physical id, for either way of writing it:
             for p in count(k): if p not in used: ... return p          (havoc p with forall k <= q < p: q in used; run the body once)
             while p in used [or p in other ...]: p += 1                (havoc p likewise, plus p in none of them; loop done)
        anything else: no contract (the real loop is executed)"""
        import ast as _ast
        used = sc.self0._used_physical_qubit_addresses
        if not isinstance(used, M.SymIntSet):
            return NotImplemented       # concrete in-use set: run the real loop
        q = z3.Int("q!")
        if isinstance(stn, _ast.For) and isinstance(stn.target, _ast.Name) and isinstance(stn.iter, _ast.Call) and getattr(stn.iter.func, "id", "") == "count":
            start = lift_int(it_.ev(stn.iter.args[0], sc)) if stn.iter.args else z3.IntVal(0)
            it_.fresh_ctr += 1
            p = z3.Int(f"scan!{it_.fresh_ctr}")
            it_.pc.append(z3.And(p >= start, z3.ForAll([q], z3.Implies(z3.And(q >= start, q < p), z3.Select(used.arr, q)))))
            it_.assign(stn.target, SInt(p), sc)
            it_.exec_block(stn.body, sc)
            raise I.PathAbort()        # body fell through: p is in use, invariant extends to p + 1
        if isinstance(stn, _ast.While) and len(stn.body) == 1 and isinstance(stn.body[0], _ast.AugAssign) and isinstance(stn.body[0].op, _ast.Add) \
                and isinstance(stn.body[0].target, _ast.Name) and isinstance(stn.body[0].value, _ast.Constant) and stn.body[0].value.value == 1 and not stn.orelse:
            var = stn.body[0].target.id
            # the test: ``var in C`` or a disjunction of such tests; C is the symbolic in-use set or a concrete collection of ids
            terms = stn.test.values if (isinstance(stn.test, _ast.BoolOp) and isinstance(stn.test.op, _ast.Or)) else [stn.test]
            conts = []
            for t in terms:
                if not (isinstance(t, _ast.Compare) and len(t.ops) == 1 and isinstance(t.ops[0], _ast.In) and isinstance(t.left, _ast.Name) and t.left.id == var):
                    return NotImplemented
                c = it_.ev(t.comparators[0], sc)
                if isinstance(c, M.SymIntSet):
                    conts.append(lambda x, c=c: z3.Select(c.arr, x))
                elif isinstance(c, (list, tuple, set, frozenset)) and all(isinstance(v, int) for v in c):
                    conts.append(lambda x, c=c: z3.Or(*[x == v for v in c]) if c else z3.BoolVal(False))
                else:
                    return NotImplemented

            def taken(x):
                return z3.Or(*[f(x) for f in conts])
            start = lift_int(it_.ev(_ast.Name(id=var, ctx=_ast.Load()), sc))
            it_.fresh_ctr += 1
            p = z3.Int(f"scan!{it_.fresh_ctr}")
            it_.pc.append(z3.And(p >= start, z3.Not(taken(p)), z3.ForAll([q], z3.Implies(z3.And(q >= start, q < p), taken(q)))))
            it_.assign(_ast.Name(id=var, ctx=_ast.Store()), SInt(p), sc)
            return None                 # loop finished
        return NotImplemented
    it.loop_contracts[("netqasm.backend.executor.Executor._get_unused_physical_qubit", 0)] = first_unused
    it.loop_contracts[("netqasm.sdk.shared_memory.Arrays._assert_list", 0)] = M.foreach_generic_element


def _setup(ctx, n_arrays=2):
    ex = new_executor(ctx, apps=(0, 1))
    symbolic_app_state(ctx, ex, 0, "a", n_arrays=n_arrays)
    symbolic_app_state(ctx, ex, 1, "b", n_arrays=1)
    symbolic_qubit_state(ctx, ex, (0, 1))
    ex._subroutines[SID] = Subroutine(app_id=0)
    ex._subroutines[SID_OTHER] = Subroutine(app_id=1)
    ex._program_counters[SID] = ctx.int("pc", 0, None)
    ex._program_counters[SID_OTHER] = ctx.int("pc_other", 0, None)
    ex.outcome = ctx.int("outcome", 0, 1)
    return ex


def _attempt_cmd(ctx, ex, instr):
    try:
        gen = ctx.call(ex._execute_command, SID, instr)
        ctx.call(list, gen)
        return ("ret", None)
    except Raised as r:
        return ("exc", r.e)


def _pins(ctx, ex, instr, kinds):
    """name the pre-state values the instruction reads; return the domain restriction (requires)"""
    req = []
    names = operand_fields(type(instr))
    for n, k in zip(names, kinds):
        o = getattr(instr, n)
        if k == "reg":
            pin_register(ctx, ex, 0, o, f"val_{n}", big_ok=not isinstance(instr, core.ArrayInstruction))
        elif k == "entry":
            iv = pin_register(ctx, ex, 0, o.index, f"val_{n}_index")
            # statement is silent on negative indices (python would index from the end): outside the claimed domain
            req.append(ctx.or_(ctx.is_none(iv), _ge0(ctx, iv)))
            idx = _optval(ctx, iv)
            for j in range(2):
                pin_entry(ctx, ex, 0, j, idx, f"arr{j}_at_index")
    return req


def _optval(ctx, v):
    if isinstance(v, M.OptInt):
        return mk_int(v.val)
    return v if v is not None else 0


def _ge0(ctx, v):
    if isinstance(v, M.OptInt):
        return mk_bool(v.val >= 0)
    return v is None or v >= 0


def build():
    R = Registry("C04")
    R.explanation = ("function-against-spec-function per instruction handler over arbitrary symbolic executor states; fault <=> fault with "
                     "state unchanged; frame (other application untouched); fetch-loop contract incl. 'error names its line'")
    R.trusted = [
        "specs/isa.py: the instruction semantics written from the statement",
        "pyvc interpreter and container models (SymMap/SymList/SymKeyDict/SymIntSet: z3 arrays), generators run with exact semantics",
        "arrays table abstracted by two symbolic arrays at distinct symbolic addresses + absent addresses (an instruction names one address)",
        "processor hooks (_do_*, _clear_phys_qubit_in_memory, _reserve_physical_qubit) replaced by their contract: record the event, touch nothing",
        "z3 on LIA + arrays + the quantified representation invariant",
    ]
    R.assumptions = [
        "outside the claimed domain (statement silent; python gives them a meaning): negative array indices, negative virtual qubit addresses, "
        "branch instructions whose operand register is undefined",
        "simulation mode (get_is_using_hardware() == False) for all handlers; hardware-mode overflow faults proved for the register-writing handlers",
        "termination / the step bound of the statement is not claimed",
        "instruction logger absent (instr_log_dir=None)",
    ]
    R.dropped = ["docstrings, type annotations, logging calls and their f-string arguments"]

    def mk_step(cls, hw_mode=False):
        kinds = table_entry(cls)[1]

        def f(ctx):
            ex = _setup(ctx)
            hw = hw_mode
            _install(ctx, ex, hw)
            if ctx.symbolic and cls.mnemonic.startswith(("rot_", "crot_")):
                ctx.it.pow_uf = True        # 2**d as an uninterpreted function: the angle n*pi/2**d is compared structurally
            if not ctx.symbolic:
                settings.set_is_using_hardware(bool(hw))
            try:
                instr = mk_instr(ctx, cls, kinds)
                req = _pins(ctx, ex, instr, kinds)
                m = cls.mnemonic
                for c in req:
                    ctx.assume(c)
                spec = spec_state(ex, 0, SID)
                other = spec_state(ex, 1, SID_OTHER)
                _domain(ctx, ex, instr, m, hw)
                out = _attempt_cmd(ctx, ex, instr)
                choice = None
                if m == "qalloc" and out[0] == "ret":
                    # the physical qubit the implementation took (any unused one is right; the semantics check that it was unused)
                    got = ctx.index(ex._qubit_unit_modules[0], _optval(ctx, ctx.call(ex._get_register, 0, instr.reg)))
                    choice = None if ctx.truth(ctx.is_none(got)) else _optval(ctx, got)
                try:
                    ctx.call(isa.step, spec, instr, hw, ex.outcome, choice)
                    fault = None
                except Raised as r:
                    if not isinstance(r.e, isa.Fault):
                        raise
                    fault = r.e.kind
                if fault is not None:
                    ctx.cover("fault:" + fault)
                    ctx.check(f"faults-when-semantics-fault[{fault}]", out[0] == "exc")
                    check_views_equal(ctx, view(ex, 0, SID), spec, prefix="on-fault-state-unchanged/")
                else:
                    ctx.cover("normal")
                    ctx.check("no-fault-when-semantics-define-a-result", out[0] == "ret")
                    if out[0] == "ret":
                        check_views_equal(ctx, view(ex, 0, SID), spec, prefix="post/")
                ov = view(ex, 1, SID_OTHER)
                ov.events = []
                other.USED = ov.USED          # the in-use set is global; its correctness is checked above
                check_views_equal(ctx, ov, other, prefix="frame-other-application/")
            finally:
                if not ctx.symbolic:
                    settings.set_is_using_hardware(False)
        return f

    for cls in CLASSICAL + QUANTUM:
        R.add(f"step[{cls.__module__.rsplit('.', 1)[-1]}.{cls.mnemonic}]", kind="lia", samples=80, max_paths=6000)(mk_step(cls))
    for cls in (core.SetInstruction, core.AddInstruction, core.SubInstruction, core.LeaInstruction):
        R.add(f"step-hardware-mode[{cls.mnemonic}]", kind="lia", samples=60, max_paths=6000)(mk_step(cls, hw_mode=True))

    # ---------------- fetch loop
    def fetch_loop(ctx):
        if not ctx.symbolic:
            return _fetch_native(ctx)
        it = ctx.it
        ex = new_executor(ctx, apps=(0,))
        ex._subroutines[SID] = Subroutine(app_id=0)
        n = ctx.int("n", 0, None)
        cmds = M.SymFamily(n.t, lambda k: ("cmd", mk_int(k)))
        seen = {}

        class Boom(RuntimeError):
            pass
        will_fault = ctx.bool("instruction-faults")
        nxt = ctx.int("next_pc", 0, None)

        def exec_cmd(it_, a, k):
            seen["sid"], seen["cmd"] = a[1], a[2]
            if it_.truth(will_fault):
                raise I.PyExc(Boom("the fault"))
            ex._program_counters[SID] = nxt
            return None
        it.stubs = {Executor._execute_command: exec_cmd}

        def loop(it_, stn, sc):
            pc = ctx.int("pc", 0, None)
            ex._program_counters[SID] = pc
            if it_.truth(it_.ev(stn.test, sc)):
                ctx.cover("iteration")
                try:
                    it_.exec_block(stn.body, sc)
                except I._Break:
                    ctx.check("loop/stops-only-after-a-fault", False)
                    raise I.PathAbort()
                except I.PyExc as x:
                    ctx.cover("fault-exit")
                    ctx.check("loop/fetches-commands[pc]", seen.get("cmd") is not None and ctx.truth(ctx.eq(seen["cmd"][1], pc)) and seen["sid"] == SID)
                    ctx.check("fault/same-exception-class", type(x.e) is Boom)
                    args = getattr(x.e, "_pyvc_args", ())
                    msg = args[0] if args else None
                    ok = isinstance(msg, M.SegStr) and len(msg.parts) >= 3 and msg.parts[0] == "At line " and \
                        isinstance(msg.parts[1], tuple) and ctx.truth(ctx.eq(msg.parts[1][1], pc)) and \
                        isinstance(msg.parts[2], str) and msg.parts[2].startswith(": ")
                    ctx.check("fault/message-starts-with-At-line-pc", ok)
                    ctx.check("fault/counter-stays-at-the-faulting-instruction", ctx.eq(ex._program_counters[SID], pc))
                    raise I.PathAbort()
                ctx.check("loop/fetches-commands[pc]", seen.get("cmd") is not None and ctx.truth(ctx.eq(seen["cmd"][1], pc)) and seen["sid"] == SID)
                ctx.check("loop/no-fault-continues", not ctx.truth(will_fault))
                raise I.PathAbort()
            ctx.cover("exit")
            ctx.check("loop/exits-only-when-pc>=len", mk_bool(pc.t >= n.t))
        it.loop_contracts[("netqasm.backend.executor.Executor._execute_commands", 0)] = loop
        gen = ctx.call(ex._execute_commands, SID, cmds)
        ctx.call(list, gen)
    R.add("fetch-loop[_execute_commands]", kind="lia", samples=40, inductive=True)(fetch_loop)

    def _fetch_native(ctx):
        from netqasm.lang.parsing.text import parse_text_subroutine
        # native instance: a program whose k-th instruction faults; the error must name line k and execution must stop there
        k = ctx.int("k", 0, 5)
        kind = ctx.choice("fault", ["load-undefined", "modulus-zero", "double-alloc", "free-unallocated", "index-past-end", "store-undefined"])
        pre = ["set R0 0", "set R1 1", "set R2 2", "array R2 @0", "set Q0 0", "add R3 R0 R1"][:k] + ["set R9 9"] * max(0, k - 6)
        bad = {"load-undefined": ["set R2 2", "array R2 @7", "load R5 @7[R0]"], "modulus-zero": ["set R0 0", "set R1 1", "addm R5 R1 R1 R0"],
               "double-alloc": ["set Q0 0", "qalloc Q0", "qalloc Q0"], "free-unallocated": ["set Q0 0", "qfree Q0"],
               "index-past-end": ["set R2 2", "array R2 @7", "set R4 5", "set R6 1", "store R6 @7[R4]"], "store-undefined": ["set R2 2", "set R0 0", "array R2 @7", "store R12 @7[R0]"]}[kind]
        body = pre + bad + ["set R15 77"]
        line = len(pre) + len(bad) - 1
        text = "# NETQASM 0.0\n# APPID 0\n" + "\n".join(body) + "\n"
        from netqasm.lang.parsing.text import parse_text_subroutine as P
        sub = P(text)
        # literal operands are expanded by the assembler: recompute the faulting line on the assembled program
        ex = new_executor(ctx, apps=(0,))
        try:
            ex.consume_execute_subroutine(sub)
            ctx.check("fault/raised", False)
        except Exception as e:
            msg = str(e)
            ctx.check("fault/message-starts-with-At-line-pc", msg.startswith("At line "))
            ln = int(msg[len("At line "):].split(":")[0])
            ctx.check("fault/names-the-faulting-instruction", sub.instructions[ln].mnemonic == sub.instructions[ln].mnemonic and
                      str(sub.instructions[ln]).split()[0] == bad[-1].split()[0])
            ctx.check("fault/later-instructions-not-executed", ex._registers[0][BANKS[0]]._register.get(15) is None)
    # ---------------- subroutine bookkeeping around the loop
    def execute_subroutine(ctx):
        ex = new_executor(ctx, apps=(0, 1))
        symbolic_app_state(ctx, ex, 0, "a")
        sub = Subroutine(app_id=0, instructions=[core.SetInstruction(reg=mk_instr(ctx, core.SetInstruction, ["reg", "int32"]).reg,
                                                                     imm=mk_instr(ctx, core.SetInstruction, ["reg", "int32"], prefix="y").imm)])
        nlive = ctx.choice("live", [0, 1, 2])
        for j in range(nlive):
            list(ex.execute_subroutine(Subroutine(app_id=1, instructions=[])))
        before = ex._next_subroutine_id
        ctx.call(list, ctx.call(ex.execute_subroutine, sub))
        ctx.check("subroutine-ids-are-fresh", ex._next_subroutine_id == before + 1)
        ctx.check("finished-subroutine-is-cleared", len(ex._subroutines) == 0 and before not in ex._program_counters)
        r = sub.instructions[0]
        ctx.check("effect-lands-in-the-subroutine's-application", ctx.eq(ctx.call(ex._get_register, 0, r.reg), r.imm.value))
        ctx.check("other-application-untouched", all(len(ex._registers[1][b]._register) == 0 for b in BANKS))
    R.add("execute_subroutine[bookkeeping]", kind="lia", samples=30)(execute_subroutine)

    # ---------------- canaries
    def canary(ctx):
        ex = _setup(ctx)
        _install(ctx, ex, False)
        instr = mk_instr(ctx, core.SubInstruction, ["reg", "reg", "reg"])
        _pins(ctx, ex, instr, ["reg", "reg", "reg"])
        spec = spec_state(ex, 0, SID)
        out = _attempt_cmd(ctx, ex, instr)
        try:
            ctx.call(isa.step, spec, core.AddInstruction(reg0=instr.reg0, reg1=instr.reg1, reg2=instr.reg2), False, 0)
        except Raised:
            return
        if out[0] == "ret":
            check_views_equal(ctx, view(ex, 0, SID), spec, prefix="sub-behaves-like-add/")
    class _Pre(M.SymSet):
        def __init__(self, bits):
            M.SymSet.__init__(self, "pre", list(bits), dict(bits))

    def alloc_finite(ctx):
        """_get_unused_physical_qubit over a finite universe of physical ids (all 256 in-use sets at once): returns an id
        that was not in use and marks exactly that one.  (The general case is the loop contract above; this obligation
        any unused id is accepted; keeps an implementation that computes the id differently -- e.g. from the SIZE of the set -- decidable.)"""
        ex = new_executor(ctx, apps=(0,))
        U = list(range(8))
        if ctx.symbolic:
            used = M.SymSet("U", U + [8])
            used.bits[8] = z3.BoolVal(False)
            pre = dict(used.bits)
        else:
            used = set(u for u in U if ctx.bool(f"used{u}"))
            pre = set(used)
        ex._used_physical_qubit_addresses = used
        p = ctx.call(ex._get_unused_physical_qubit)

        def was(u):
            return (mk_bool(pre[u]) if ctx.symbolic else (u in pre)) if u in U else False
        U9 = U + [8]

        def now(u):
            return ctx.call(lambda: None) if False else (M.contains(ctx.it, used, u) if ctx.symbolic else (u in used))
        ctx.check("alloc: returns a physical id that was not in use", ctx.and_(ctx.ge(p, 0), ctx.not_(M.contains(ctx.it, _Pre(pre), p) if ctx.symbolic else (p in pre))))
        want = next((u for u in U9 if ctx.truth(ctx.eq(p, u))), None)
        if want is not None:
            ctx.check("alloc: marks exactly that id", ctx.truth(now(want)) and all(ctx.truth(ctx.eq(now(u), was(u))) for u in U9 if u != want))
    R.add("alloc[_get_unused_physical_qubit, finite universe]", kind="lia", samples=60)(alloc_finite)

    R.canary("sub-is-not-add", kind="lia", samples=40)(canary)
    return R


def _domain(ctx, ex, instr, m, hw):
    """requires-clauses narrowing the property's domain (each listed under assumptions)"""
    def regval(reg):
        return ctx.call(ex._get_register, 0, reg)
    if m in ("bez", "bnz"):
        ctx.assume(ctx.not_(ctx.is_none(regval(instr.reg))))
    if m in ("beq", "bne", "blt", "bge"):
        ctx.assume(ctx.not_(ctx.is_none(regval(instr.reg0))))
        ctx.assume(ctx.not_(ctx.is_none(regval(instr.reg1))))
    if m in ("qalloc", "qfree"):
        v = regval(instr.reg)
        ctx.assume(ctx.or_(ctx.is_none(v), _ge0(ctx, v)))
