"""C11 -- EPR requests and results cross the SDK/controller boundary intact.

End-to-end contract, executed through the REAL pipeline (EPRSocket call -> Builder -> assembler -> base Executor ->
network stack; and back: link-layer response -> executor -> shared memory -> SDK handles), with the
application's parameters and the response fields symbolic:

  request    the ``LinkLayerCreate`` handed to the network stack has  type, number, time_unit, max_time,
             rotation_{X,Y,X}_{local,remote}, random_basis_{local,remote}, remote_node_id, purpose_id (= socket id)
             equal to what the application passed (SDK defaults where it passed nothing), every enum-typed
             field IS an enum member, and ``request_to_qlink_1_0`` (the link-layer interface) accepts it and
             carries the same values;  recv_* registers a receive request for (remote node, socket)
  results    for responses with ARBITRARY field values, after the flush every handle of pair i reads the
             corresponding field of pair i's response: Qubit.entanglement_info (all 10 fields),
             EprKeepResult / EprMeasureResult fields (qubit id, outcome, Bell state, duration, remote node)

Pair counts 1..3 (the builder loops over the concrete count); K and M types in both roles; R (remote state
preparation) on the create side.  Field pairing generation_duration <-> goodness is pinned as found.
"""
from __future__ import annotations

import z3

from netqasm import qlink_compat as QC
from netqasm.qlink_compat import (BellState, EPRType, LinkLayerCreate, LinkLayerOKTypeK, LinkLayerOKTypeM, RandomBasis,
                                  RequestType, ReturnType, TimeUnit)
from netqasm.sdk.build_epr import EprMeasBasis, basis_to_rotation
from netqasm.sdk.epr_socket import EPRSocket
from pyvc.harness import Raised, Registry
from pyvc.values import Sym

from .c04 import _install
from .pipeline import drive, make_pipeline, table_entries

LEVEL = "proof"
TECHNIQUE = ("contract-based deductive verification: end-to-end symbolic execution of the real SDK -> assembler -> executor -> network-stack path "
             "(and response -> shared memory -> handle path) with symbolic parameters and response fields; field-by-field postconditions discharged by z3")

REMOTE_ID = 1        # node id of "Bob"


def _mk(ctx, sock_id=None, **conn_kw):
    sid = sock_id if sock_id is not None else ctx.int("socket_id", 0, 200)
    epr = EPRSocket("Bob", epr_socket_id=sid if not isinstance(sid, Sym) else 0)
    conn, ex = make_pipeline(ctx, "Alice", epr_sockets=[epr], **conn_kw)
    if isinstance(sid, Sym):
        epr._epr_socket_id = sid
    if ctx.symbolic:
        _install(ctx, ex, False)
    subs = []
    conn.runner = subs.append
    return conn, ex, epr, subs, sid


def _flush(ctx, conn):
    ctx.call(conn.flush)


def _answer_creates(ctx, ex):
    """on_wait callback: the link layer answers every outstanding measure-directly create request completely"""
    from .pipeline import table_entries
    def on_wait(k):
        for key, q in table_entries(ex._epr_create_requests):
            for d in list(q):
                for i in range(d.pairs_left):
                    ctx.call(ex._handle_epr_response, LinkLayerOKTypeM(type=ReturnType.OK_M, measurement_outcome=0, measurement_basis=QC.Basis.Z, directionality_flag=0,
                                                                      sequence_number=i, purpose_id=key[1], remote_node_id=key[0], bell_state=BellState.PHI_PLUS))
    return on_wait


def _check_request(ctx, ex, sid, tp, number, time_unit, max_time, rot_l, rot_r, rb_l, rb_r):
    reqs = ex.network_stack.requests
    ctx.check("exactly-one-request-reaches-the-network-stack", len(reqs) == 1)
    if len(reqs) != 1:
        return
    r = reqs[0]
    ctx.check("is-a-LinkLayerCreate", isinstance(r, LinkLayerCreate))
    ctx.check("remote-node-id", ctx.eq(r.remote_node_id, REMOTE_ID))
    ctx.check("purpose-id-is-the-socket-id", ctx.eq(r.purpose_id, sid))
    ctx.check("type", r.type is tp)
    ctx.check("number", ctx.eq(r.number, number))
    if ctx.truth(ctx.not_(ctx.eq(max_time, 0))):
        ctx.check("time-unit", ctx.eq(r.time_unit, ctx.getattr(time_unit, "value")))
        ctx.check("max-time", ctx.eq(r.max_time, max_time))
    else:
        ctx.check("max-time", ctx.eq(r.max_time, 0))
    ctx.check("rotations-local", ctx.and_(ctx.eq(r.rotation_X_local1, rot_l[0]), ctx.eq(r.rotation_Y_local, rot_l[1]), ctx.eq(r.rotation_X_local2, rot_l[2])))
    ctx.check("rotations-remote", ctx.and_(ctx.eq(r.rotation_X_remote1, rot_r[0]), ctx.eq(r.rotation_Y_remote, rot_r[1]), ctx.eq(r.rotation_X_remote2, rot_r[2])))
    want_l = rb_l if rb_l is not None else RandomBasis.NONE
    want_r = rb_r if rb_r is not None else RandomBasis.NONE
    ctx.check("random-basis-local-is-the-enum-member", _same_member(ctx, r.random_basis_local, want_l))
    ctx.check("random-basis-remote-is-the-enum-member", _same_member(ctx, r.random_basis_remote, want_r))
    # the link-layer interface accepts it
    if tp is RequestType.R:
        _qlink_stubs(ctx)
        out = ctx.attempt(QC.request_to_qlink_1_0, r)
        ctx.check("link-layer-interface-accepts-the-request[type R]", out[0] == "ret")
    if tp is not RequestType.R:
        stub = _qlink_stubs(ctx)
        out = ctx.attempt(QC.request_to_qlink_1_0, r)
        ctx.check("link-layer-interface-accepts-the-request", out[0] == "ret")
        if out[0] == "ret":
            q = out[1]
            ctx.check("link-layer-request-carries-the-same-values",
                      ctx.and_(ctx.eq(q.remote_node_id, REMOTE_ID), ctx.eq(q.purpose_id, sid), ctx.eq(q.number, number), ctx.eq(q.max_time, r.max_time)))
            if tp is RequestType.M:
                ctx.check("link-layer-request-carries-rotations-and-bases",
                          ctx.and_(ctx.eq(q.x_rotation_angle_local_1, rot_l[0]), ctx.eq(q.y_rotation_angle_local, rot_l[1]), ctx.eq(q.x_rotation_angle_local_2, rot_l[2]),
                                   ctx.eq(q.x_rotation_angle_remote_1, rot_r[0]), ctx.eq(q.y_rotation_angle_remote, rot_r[1]), ctx.eq(q.x_rotation_angle_remote_2, rot_r[2]),
                                   ctx.eq(ctx.getattr(q.random_basis_local, "value"), ctx.getattr(want_l, "value")),
                                   ctx.eq(ctx.getattr(q.random_basis_remote, "value"), ctx.getattr(want_r, "value"))))


def _same_member(ctx, got, want):
    """``got`` is a member of want's enum class and the same member"""
    from pyvc.values import SEnum
    import enum as _enum
    cls = want.cls if isinstance(want, SEnum) else type(want)
    if isinstance(got, SEnum):
        return got.cls is cls and ctx.eq(got, want)
    if isinstance(got, _enum.Enum):
        return isinstance(got, cls) and ctx.eq(got, want)
    return False


class _Rec:
    """record standing for a qlink_interface request dataclass (external library: constructor modelled as a plain record)"""
    _pyvc_ghost = True

    def __init__(self, **kw):
        self.__dict__.update(kw)


def _qlink_stubs(ctx):
    if not ctx.symbolic:
        return None
    import qlink_interface as q
    for cls in (q.ReqCreateAndKeep, q.ReqMeasureDirectly, q.ReqReceive, q.ReqRemoteStatePrep):
        ctx.it.stubs[cls] = (lambda it_, a, k: _Rec(**k))
    return True


def build():
    R = Registry("C11")
    R.explanation = ("end-to-end symbolic run of the real request path (EPRSocket -> Builder -> assembler -> Executor -> network stack -> qlink conversion) and "
                     "result path (response -> executor -> shared memory -> SDK handles) with symbolic parameter and response-field values, pair counts 1..3")
    R.trusted = ["pyvc interpreter / models (whole SDK, assembler and executor interpreted from their ASTs; generators with exact semantics)",
                 "qlink_interface request dataclasses modelled as plain records (external library)",
                 "processor hooks by contract; network stack = recording stub with purpose id = socket id"]
    R.assumptions = ["pair counts 1..3 (the builder emits one block per concrete count)",
                     "field pairing generation_duration <-> goodness pinned as found (documented ambiguity)",
                     "type R (remote state preparation) cannot be converted by request_to_qlink_1_0 (no R request in qlink 1.0): recorded, not claimed"]
    R.dropped = ["docstrings, type annotations, logging calls"]

    # ------------------------------------------------------------------ requests
    def create_keep(ctx):
        n = ctx.choice("number", [1, 2, 3])
        tu = ctx.enum("time_unit", TimeUnit)
        mt = ctx.int("max_time", 0, 10 ** 6)
        conn, ex, epr, subs, sid = _mk(ctx)
        ctx.call(epr.create_keep, number=n, time_unit=tu, max_time=mt)
        _flush(ctx, conn)
        ctx.check("one-subroutine-committed", len(subs) == 1)
        drive(ctx, ex, subs[0])
        _check_request(ctx, ex, sid, RequestType.K, n, tu, mt, (0, 0, 0), (0, 0, 0), None, None)
    R.add("request[create_keep]", kind="lia", samples=40, max_paths=400)(create_keep)

    def create_measure(ctx):
        n = ctx.choice("number", [1, 2])
        tu = ctx.enum("time_unit", TimeUnit)
        mt = ctx.int("max_time", 0, 10 ** 6)
        rl = tuple(ctx.int(f"rot_local{k}", 0, 31) for k in range(3))
        rr = tuple(ctx.int(f"rot_remote{k}", 0, 31) for k in range(3))
        rbl = ctx.enum("random_basis_local", RandomBasis) if ctx.choice("has_rb_local", [False, True]) else None
        rbr = ctx.enum("random_basis_remote", RandomBasis) if ctx.choice("has_rb_remote", [False, True]) else None
        conn, ex, epr, subs, sid = _mk(ctx)
        ctx.call(epr.create_measure, number=n, time_unit=tu, max_time=mt, rotations_local=rl, rotations_remote=rr,
                 random_basis_local=rbl, random_basis_remote=rbr)
        _flush(ctx, conn)
        drive(ctx, ex, subs[0])
        _check_request(ctx, ex, sid, RequestType.M, n, tu, mt, rl, rr, rbl, rbr)
    R.add("request[create_measure]", kind="lia", samples=120, max_paths=20000)(create_measure)

    def two_requests(ctx):
        """two create requests in ONE subroutine: each reaches the network stack with ITS OWN parameters (no state carried from one to the next).
        Parameter values are enumerated (small), so that an implementation that keys something by them stays executable."""
        triples = [(0, 0, 0), (8, 0, 0), (0, 8, 24)]
        REPR = [(1, 0, 0, None, None), (2, 1, 0, None, None), (1, 0, 1, None, None), (2, 0, 0, RandomBasis.XZ, None), (1, 0, 0, None, RandomBasis.XZ),
                (2, 2, 2, RandomBasis.CHSH, RandomBasis.XZ)]
        conn, ex, epr, subs, sid = _mk(ctx, sock_id=3)
        params = []
        full = ctx.choice("request with all parameter combinations", [0, 1])      # the other one takes 6 representative settings
        for k in range(2):
            if k == full:
                n = ctx.choice(f"number{k}", [1, 2])
                rl = triples[ctx.choice(f"rl{k}", [0, 1, 2])]
                rr = triples[ctx.choice(f"rr{k}", [0, 1, 2])]
                rbl = ctx.choice(f"rbl{k}", [None, RandomBasis.XZ, RandomBasis.CHSH])
                rbr = ctx.choice(f"rbr{k}", [None, RandomBasis.XZ])
            else:
                n, i, j, rbl, rbr = REPR[ctx.choice(f"setting{k}", list(range(len(REPR))))]
                rl, rr = triples[i], triples[j]
            params.append((n, rl, rr, rbl, rbr))
            ctx.call(epr.create_measure, number=n, rotations_local=rl, rotations_remote=rr, random_basis_local=rbl, random_basis_remote=rbr)
        _flush(ctx, conn)
        drive(ctx, ex, subs[0], _answer_creates(ctx, ex))
        reqs = ex.network_stack.requests
        ctx.check("both-requests-reach-the-network-stack-in-order", len(reqs) == 2)
        if len(reqs) != 2:
            return
        for k, (n, rl, rr, rbl, rbr) in enumerate(params):
            r = reqs[k]
            ctx.check(f"request {k}: number", ctx.eq(r.number, n))
            ctx.check(f"request {k}: rotations-local", ctx.and_(ctx.eq(r.rotation_X_local1, rl[0]), ctx.eq(r.rotation_Y_local, rl[1]), ctx.eq(r.rotation_X_local2, rl[2])))
            ctx.check(f"request {k}: rotations-remote", ctx.and_(ctx.eq(r.rotation_X_remote1, rr[0]), ctx.eq(r.rotation_Y_remote, rr[1]), ctx.eq(r.rotation_X_remote2, rr[2])))
            ctx.check(f"request {k}: random-basis-local", _same_member(ctx, r.random_basis_local, rbl if rbl is not None else RandomBasis.NONE))
            ctx.check(f"request {k}: random-basis-remote", _same_member(ctx, r.random_basis_remote, rbr if rbr is not None else RandomBasis.NONE))
    R.add("request[two create_measure requests in one subroutine]", kind="lia", samples=300, max_paths=200000, thorough_only=True,
          note="one request ranges over all 108 enumerated parameter combinations, the other over 6 representative settings, both orders (1296 paths, thorough tier); the quick tier runs the sampled version below")(two_requests)

    def two_requests_sampled(ctx):
        if True:
            # a small slice for the quick tier: the second request differs from the first only in WHERE its values sit
            conn, ex, epr, subs, sid = _mk(ctx, sock_id=3)
            which = ctx.choice("case", ["local-then-remote rotations", "local-then-remote random basis", "different numbers"])
            if which == "local-then-remote rotations":
                a, b = dict(rotations_local=(0, 8, 0)), dict(rotations_remote=(0, 8, 0))
            elif which == "local-then-remote random basis":
                a, b = dict(random_basis_local=RandomBasis.XZ), dict(random_basis_remote=RandomBasis.XZ)
            else:
                a, b = dict(rotations_local=(8, 0, 0)), dict(rotations_local=(8, 0, 0))
            na, nb = (2, 2) if which != "different numbers" else (1, 2)
            ctx.call(epr.create_measure, number=na, **a)
            ctx.call(epr.create_measure, number=nb, **b)
            _flush(ctx, conn)
            drive(ctx, ex, subs[0], _answer_creates(ctx, ex))
            reqs = ex.network_stack.requests
            ctx.check("both-requests-reach-the-network-stack-in-order", len(reqs) == 2)
            if len(reqs) != 2:
                return
            for k, (n, kw) in enumerate(((na, a), (nb, b))):
                r = reqs[k]
                rl, rr = kw.get("rotations_local", (0, 0, 0)), kw.get("rotations_remote", (0, 0, 0))
                ctx.check(f"request {k}: number", ctx.eq(r.number, n))
                ctx.check(f"request {k}: rotations", ctx.and_(ctx.eq(r.rotation_X_local1, rl[0]), ctx.eq(r.rotation_Y_local, rl[1]), ctx.eq(r.rotation_X_local2, rl[2]),
                                                              ctx.eq(r.rotation_X_remote1, rr[0]), ctx.eq(r.rotation_Y_remote, rr[1]), ctx.eq(r.rotation_X_remote2, rr[2])))
                ctx.check(f"request {k}: random bases", ctx.and_(_same_member(ctx, r.random_basis_local, kw.get("random_basis_local", RandomBasis.NONE)),
                                                                  _same_member(ctx, r.random_basis_remote, kw.get("random_basis_remote", RandomBasis.NONE))))
    R.add("request[two create_measure requests in one subroutine, quick]", kind="lia", samples=60, max_paths=400)(two_requests_sampled)

    def create_measure_named_bases(ctx):
        bl = ctx.choice("basis_local", list(EprMeasBasis))
        br = ctx.choice("basis_remote", list(EprMeasBasis))
        conn, ex, epr, subs, sid = _mk(ctx, sock_id=3)
        ctx.call(epr.create_measure, number=1, basis_local=bl, basis_remote=br)
        _flush(ctx, conn)
        drive(ctx, ex, subs[0])
        _check_request(ctx, ex, 3, RequestType.M, 1, TimeUnit.MICRO_SECONDS, 0, basis_to_rotation(bl), basis_to_rotation(br), None, None)
    R.add("request[create_measure named bases]", kind="lia", samples=36, max_paths=400)(create_measure_named_bases)

    def create_rsp(ctx):
        rl = tuple(ctx.int(f"rot_local{k}", 0, 31) for k in range(3))
        rbl = ctx.enum("random_basis_local", RandomBasis) if ctx.choice("has_rb_local", [False, True]) else None
        mt = ctx.int("max_time", 0, 10 ** 6)
        tu = ctx.enum("time_unit", TimeUnit)
        conn, ex, epr, subs, sid = _mk(ctx)
        ctx.call(epr.create_rsp, number=1, time_unit=tu, max_time=mt, rotations_local=rl, random_basis_local=rbl)
        _flush(ctx, conn)
        drive(ctx, ex, subs[0])
        _check_request(ctx, ex, sid, RequestType.R, 1, tu, mt, rl, (0, 0, 0), rbl, None)
    R.add("request[create_rsp]", kind="lia", samples=60, max_paths=4000)(create_rsp)

    def mk_recv(kind):
        def f(ctx):
            n = ctx.choice("number", [1, 2, 3])
            conn, ex, epr, subs, sid = _mk(ctx)
            ctx.call(getattr(epr, kind), number=n)
            _flush(ctx, conn)
            drive(ctx, ex, subs[0])
            ctx.check("nothing-sent-to-the-network-stack-by-a-receive", len(ex.network_stack.requests) == 0)
            ents = [(k, l) for k, l in table_entries(ex._epr_recv_requests) if len(l)]
            ctx.check("receive-registered-for-(remote node, socket)", len(ents) == 1 and ctx.truth(ctx.and_(ctx.eq(ents[0][0][0], REMOTE_ID), ctx.eq(ents[0][0][1], sid))))
            if len(ents) == 1:
                d = ents[0][1][0]
                ctx.check("number-of-pairs", ctx.eq(d.tot_pairs, n))
            ctx.check("no-create-registered", all(len(l) == 0 for k, l in table_entries(ex._epr_create_requests)))
        return f
    for kind in ("recv_keep", "recv_measure", "recv_rsp"):
        R.add(f"request[{kind}]", kind="lia", samples=30, max_paths=400)(mk_recv(kind))

    # ------------------------------------------------------------------ results
    def _resp_k(ctx, i, sid, creator):
        return LinkLayerOKTypeK(type=ReturnType.OK_K, create_id=ctx.int(f"r{i}_create_id", 0, 1000), logical_qubit_id=100 + i,
                                directionality_flag=0 if creator else 1, sequence_number=ctx.int(f"r{i}_seq", 0, 1000), purpose_id=sid, remote_node_id=REMOTE_ID,
                                goodness=ctx.int(f"r{i}_goodness", 0, 1000), goodness_time=ctx.int(f"r{i}_goodness_time", 0, 1000),
                                bell_state=ctx.enum(f"r{i}_bell", BellState))

    def _resp_m(ctx, i, sid, creator):
        return LinkLayerOKTypeM(type=ReturnType.OK_M, create_id=ctx.int(f"r{i}_create_id", 0, 1000), measurement_outcome=ctx.int(f"r{i}_outcome", 0, 1),
                                measurement_basis=ctx.enum(f"r{i}_basis", QC.Basis), directionality_flag=0 if creator else 1,
                                sequence_number=ctx.int(f"r{i}_seq", 0, 1000), purpose_id=sid, remote_node_id=REMOTE_ID,
                                goodness=ctx.int(f"r{i}_goodness", 0, 1000), bell_state=ctx.enum(f"r{i}_bell", BellState))

    def _resp_k10(ctx, i, sid, creator):
        import qlink_interface as q10
        return q10.ResCreateAndKeep(create_id=ctx.int(f"r{i}_create_id", 0, 1000), logical_qubit_id=100 + i, directionality_flag=0 if creator else 1,
                                    sequence_number=ctx.int(f"r{i}_seq", 0, 1000), purpose_id=sid, remote_node_id=REMOTE_ID, goodness=ctx.int(f"r{i}_goodness", 0, 1000),
                                    time_of_goodness=ctx.int(f"r{i}_goodness_time", 0, 1000), bell_state=ctx.enum(f"r{i}_bell", q10.BellState))

    def _resp_m10(ctx, i, sid, creator):
        import qlink_interface as q10
        return q10.ResMeasureDirectly(create_id=ctx.int(f"r{i}_create_id", 0, 1000), measurement_outcome=ctx.int(f"r{i}_outcome", 0, 1),
                                      measurement_basis=ctx.enum(f"r{i}_basis", q10.MeasurementBasis), directionality_flag=0 if creator else 1,
                                      sequence_number=ctx.int(f"r{i}_seq", 0, 1000), purpose_id=sid, remote_node_id=REMOTE_ID, goodness=ctx.int(f"r{i}_goodness", 0, 1000),
                                      bell_state=ctx.enum(f"r{i}_bell", q10.BellState))

    def _bell_by_name(ctx, handle_state, resp_state):
        """the handle's Bell state (netqasm enumeration) is the state the response NAMES (whatever numbering the response's format uses)"""
        from pyvc.values import SEnum
        cls = resp_state.cls if isinstance(resp_state, SEnum) else type(resp_state)
        for m in cls:
            if ctx.truth(ctx.eq(resp_state, m)):
                return ctx.truth(ctx.eq(ctx.getattr(handle_state, "name") if not isinstance(handle_state, str) else handle_state, m.name)) \
                    if not isinstance(handle_state, SEnum) else ctx.truth(ctx.eq(handle_state, BellState[m.name]))
        return False

    def mk_keep_results(role, hw="generic", fmt="0.1"):
        def f(ctx):
            n = ctx.choice("number", [1, 2, 3])
            if hw == "nv":
                from netqasm.sdk.build_types import NVHardwareConfig
                conn, ex, epr, subs, sid = _mk(ctx, sock_id=4, hardware_config=NVHardwareConfig(5), max_qubits=5)
            else:
                conn, ex, epr, subs, sid = _mk(ctx, sock_id=4)
            creator = role == "create"
            if creator:
                qubits, results = ctx.call(epr.create_keep_with_info, number=n)
            else:
                qubits, results = ctx.call(epr.recv_keep_with_info, number=n, expect_phi_plus=False)
            _flush(ctx, conn)
            resps = [(_resp_k if fmt == "0.1" else _resp_k10)(ctx, i, sid, creator) for i in range(n)]

            sent = []

            def on_wait(k):
                if hw == "nv":
                    # one communication qubit: the program waits for one pair at a time
                    if len(sent) < n:
                        sent.append(len(sent))
                        ctx.call(ex._handle_epr_response, resps[sent[-1]])
                elif k == 0:
                    for r in resps:
                        ctx.call(ex._handle_epr_response, r)
            drive(ctx, ex, subs[0], on_wait)
            for i in range(n):
                info = ctx.getattr(qubits[i], "entanglement_info")
                ok = True
                for fname in LinkLayerOKTypeK._fields:
                    if fmt != "0.1":
                        if fname in ("type", "bell_state"):
                            continue        # type: fixed by the class; bell_state: compared by NAME below
                        want = getattr(resps[i], {"goodness_time": "time_of_goodness"}.get(fname, fname))
                    else:
                        want = getattr(resps[i], fname)
                    import enum as _enum
                    from pyvc.values import SEnum
                    if isinstance(want, (SEnum, _enum.Enum)):
                        want = ctx.getattr(want, "value")
                    got = ctx.getattr(getattr(info, fname), "value")
                    ok = ctx.and_(ok, ctx.eq(got, want))
                ctx.check(f"qubit[{i}].entanglement_info reads pair {i}'s response (all fields)", ok)
                res = results[i]
                ctx.check(f"result[{i}].qubit_id", ctx.eq(ctx.getattr(res.qubit_id, "value"), resps[i].logical_qubit_id))
                ctx.check(f"result[{i}].remote_node_id", ctx.eq(ctx.getattr(res.remote_node_id, "value"), REMOTE_ID))
                ctx.check(f"result[{i}].generation_duration (pinned: goodness)", ctx.eq(ctx.getattr(res.generation_duration, "value"), resps[i].goodness))
                if fmt == "0.1":
                    ctx.check(f"result[{i}].bell_state", _same_member(ctx, ctx.getattr(res, "bell_state"), resps[i].bell_state))
                else:
                    ctx.check(f"result[{i}].bell_state is the state the response names", _bell_by_name(ctx, ctx.getattr(res, "bell_state"), resps[i].bell_state))
                    ctx.check(f"qubit[{i}].entanglement_info.bell_state is the state the response names",
                              _bell_by_name(ctx, ctx.call(BellState, ctx.getattr(info.bell_state, "value")), resps[i].bell_state))
        return f
    R.add("results[create_keep_with_info]", kind="lia", samples=30, max_paths=4000)(mk_keep_results("create"))
    R.add("results[recv_keep_with_info]", kind="lia", samples=30, max_paths=4000)(mk_keep_results("recv"))
    R.add("results[create_keep_with_info, NV hardware]", kind="lia", samples=30, max_paths=4000)(mk_keep_results("create", "nv"))
    R.add("results[recv_keep_with_info, NV hardware]", kind="lia", samples=30, max_paths=4000)(mk_keep_results("recv", "nv"))
    R.add("results[create_keep_with_info, responses in qlink-interface 1.0 format]", kind="lia", samples=30, max_paths=4000)(mk_keep_results("create", fmt="1.0"))
    R.add("results[recv_keep_with_info, responses in qlink-interface 1.0 format]", kind="lia", samples=30, max_paths=4000)(mk_keep_results("recv", fmt="1.0"))

    def mk_measure_results(role, fmt="0.1"):
        def f(ctx):
            n = ctx.choice("number", [1, 2, 3])
            conn, ex, epr, subs, sid = _mk(ctx, sock_id=4)
            creator = role in ("create", "create_rsp")
            if role == "create_rsp":
                results = ctx.call(epr.create_rsp, number=n)       # the creator of a remote state preparation measures its halves: M-type results
            elif creator:
                results = ctx.call(epr.create_measure, number=n)
            else:
                results = ctx.call(epr.recv_measure, number=n, expect_phi_plus=False)
            _flush(ctx, conn)
            resps = [(_resp_m if fmt == "0.1" else _resp_m10)(ctx, i, sid, creator) for i in range(n)]

            def on_wait(k):
                if k == 0:
                    for r in resps:
                        ctx.call(ex._handle_epr_response, r)
            drive(ctx, ex, subs[0], on_wait)
            for i in range(n):
                res = results[i]
                ctx.check(f"result[{i}].raw_measurement_outcome", ctx.eq(ctx.getattr(res.raw_measurement_outcome, "value"), resps[i].measurement_outcome))
                ctx.check(f"result[{i}].measurement_outcome (no post-processing requested)", ctx.eq(ctx.getattr(res, "measurement_outcome"), resps[i].measurement_outcome))
                ctx.check(f"result[{i}].remote_node_id", ctx.eq(ctx.getattr(res.remote_node_id, "value"), REMOTE_ID))
                ctx.check(f"result[{i}].generation_duration (pinned: goodness)", ctx.eq(ctx.getattr(res.generation_duration, "value"), resps[i].goodness))
                if fmt == "0.1":
                    ctx.check(f"result[{i}].bell_state", _same_member(ctx, ctx.getattr(res, "bell_state"), resps[i].bell_state))
                else:
                    ctx.check(f"result[{i}].bell_state is the state the response names", _bell_by_name(ctx, ctx.getattr(res, "bell_state"), resps[i].bell_state))
        return f
    R.add("results[create_measure]", kind="lia", samples=30, max_paths=8000)(mk_measure_results("create"))
    R.add("results[recv_measure]", kind="lia", samples=30, max_paths=8000)(mk_measure_results("recv"))
    R.add("results[create_rsp]", kind="lia", samples=30, max_paths=8000)(mk_measure_results("create_rsp"))
    R.add("results[create_measure, responses in qlink-interface 1.0 format]", kind="lia", samples=30, max_paths=8000)(mk_measure_results("create", "1.0"))
    R.add("results[recv_measure, responses in qlink-interface 1.0 format]", kind="lia", samples=30, max_paths=8000)(mk_measure_results("recv", "1.0"))

    def canary(ctx):
        conn, ex, epr, subs, sid = _mk(ctx, sock_id=2)
        rr = tuple(ctx.int(f"rot_remote{k}", 0, 31) for k in range(3))
        ctx.call(epr.create_measure, number=1, rotations_remote=rr)
        _flush(ctx, conn)
        drive(ctx, ex, subs[0])
        r = ex.network_stack.requests[0]
        ctx.check("remote-rotations-arrive-as-local", ctx.eq(r.rotation_X_local1, rr[0]))
    R.canary("local-remote-distinguished", kind="lia", samples=30)(canary)
    return R
