"""C20 -- toolbox circuits implement their documented operators.

Route: the real toolbox functions are executed (pyvc interpreter; natively as cross-check) on
real ``Qubit`` handles of a ``DebugConnection``; the commands the real builder emits are read
back as a gate/measurement list on virtual qubit ids and decided by exact operator algebra
in Z[zeta_64][1/2]:

  toffoli_gate   product of the 8x8 operators == Toffoli up to global phase
  t_inverse      T**7 == T^dagger
  parity_meas    for every string over IXYZ of length 1..3 with and without a leading '-':
                 Kraus operators K_m = U2 . <m|_anc . U1 . |0>_anc  ==  (I + (-1)**m P)/2 up to phase
                 (outcome distribution and post-measurement state for *arbitrary* input states),
                 and the value left in the returned handle is m XOR sign (emitted post-processing evaluated)
  set_qubit_state   emits rot_Y(theta) steps then rot_Z(phi) steps on the qubit (steps as C19 proves them);
                    spec lemma  Rz(phi) Ry(theta)|0> ~ cos(theta/2)|0> + e^{i phi} sin(theta/2)|1>  (z3 NRA)

Not claimed: execution on an external state-vector simulator; the pipeline from emitted command to
applied gate is the subject of C05 / C03 / C01 / C04.
"""
from __future__ import annotations

import itertools

import z3

from netqasm.lang.ir import GenericInstr, ICmd
from netqasm.sdk.futures import Future, RegFuture
from netqasm.sdk.qubit import Qubit
from netqasm.sdk.toolbox import gates as TG
from netqasm.sdk.toolbox import measurements as TM
from netqasm.sdk.toolbox import state_prep as SP
from pyvc.harness import Registry
from pyvc.values import mk_bool
from specs import cyc, gates
from specs.proto_eval import ProtoState

from .sdk_common import fresh_conn, pending, quantum_events

LEVEL = "proof"
TECHNIQUE = ("contract-based deductive verification: real toolbox + builder code executed to gate lists, decided by exact cyclotomic "
             "operator identities (Kraus operators for parity measurements, all Pauli strings of length 1..3 enumerated); z3 NRA spec lemma for state preparation")

PAULI = {"I": gates.ID2, "X": gates.X, "Y": gates.Y, "Z": gates.Z}


def _apply(U, ev, n):
    _, name, ids, angle = ev
    return cyc.matmul(gates.vanilla_unitary(name, ids, n, angle), U)


def _proj(wire, m, n):
    P = [[cyc.ONE if (r == c and ((r >> (n - 1 - wire)) & 1) == m) else cyc.ZERO for c in range(2 ** n)] for r in range(2 ** n)]
    return P


def _pauli_string(bases, n):
    m = None
    for w in range(n):
        f = PAULI[bases[w]] if w < len(bases) else gates.ID2
        m = f if m is None else cyc.kron(m, f)
    return m


def build():
    R = Registry("C20")
    R.explanation = ("toolbox functions run on the real SDK builder; emitted gate lists decided by exact operator algebra for arbitrary input "
                     "states; every Pauli string of length 1..3 with/without sign enumerated (finite domain of the statement)")
    R.trusted = ["specs/gates.py operator semantics of the vanilla mnemonics; specs/cyc.py exact arithmetic",
                 "specs/proto_eval.py: classical semantics of set/load/store/add/addm on proto commands",
                 "pyvc interpreter + models (the toolbox/Qubit/builder code is executed from its AST, concrete inputs)"]
    R.assumptions = ["a freshly created qubit is |0> (qalloc + init)", "not claimed: execution on an external simulator back end (DESIGN 5.C20)",
                     "set_qubit_state inherits C19's tolerance contract; sampled angles only for the emission structure (bounded)"]
    R.dropped = ["docstrings, type annotations, logging calls"]

    def toffoli(ctx):
        conn = fresh_conn()
        q = [ctx.call(Qubit, conn) for _ in range(3)]
        order = ctx.choice("roles", list(itertools.permutations(range(3))))
        c1, c2, t = (q[i] for i in order)
        n0 = len(pending(conn))
        ctx.call(TG.toffoli_gate, c1, c2, t)
        ev = quantum_events(pending(conn))
        U = cyc.eye(8)
        seen_alloc = 0
        for e in ev:
            if e[0] == "gate":
                U = _apply(U, e, 3)
            elif e[0] in ("alloc", "init"):
                seen_alloc += 1
            else:
                ctx.check("only-gates-emitted", False)
        a, b, c = (x.qubit_id for x in (c1, c2, t))
        # Toffoli: flips wire c iff wires a and b are 1
        T = [[cyc.ZERO] * 8 for _ in range(8)]
        for col in range(8):
            ba, bb = (col >> (2 - a)) & 1, (col >> (2 - b)) & 1
            row = col ^ (1 << (2 - c)) if (ba and bb) else col
            T[row][col] = cyc.ONE
        ctx.check("unitary-equals-toffoli-up-to-phase", cyc.eq_up_to_phase(U, T))
    R.add("toffoli_gate", kind="exact", samples=12)(toffoli)

    def tinv(ctx):
        conn = fresh_conn()
        q = ctx.call(Qubit, conn)
        ctx.call(TG.t_inverse, q)
        U = cyc.eye(2)
        for e in quantum_events(pending(conn)):
            if e[0] == "gate":
                U = _apply(U, e, 1)
        ctx.check("equals-T-dagger-up-to-phase", cyc.eq_up_to_phase(U, cyc.dagger(gates.T)))
        ctx.check("equals-T-dagger-exactly", cyc.mat_eq(U, cyc.dagger(gates.T)))
    R.add("t_inverse", kind="exact", samples=1)(tinv)

    for nq in (1, 2, 3):
        for neg in (False, True):
            strings = ["".join(p) for p in itertools.product("IXYZ", repeat=nq)]

            def mk(nq=nq, neg=neg, strings=strings):
                def f(ctx):
                    body = ctx.choice("bases", strings)
                    bases = ("-" if neg else "") + body
                    conn = fresh_conn()
                    qs = [ctx.call(Qubit, conn) for _ in range(nq)]
                    start = len(pending(conn))
                    m = ctx.call(TM.parity_meas, qs, bases)
                    cmds = pending(conn)[start:]
                    ev = quantum_events(pending(conn))
                    ev = ev[2 * nq:]          # drop alloc/init of the data qubits
                    nontriv = [b for b in body if b != "I"]
                    if not nontriv:
                        ctx.check("trivial-string: constant outcome equals the sign", m == (1 if neg else 0) and not any(e[0] in ("gate", "meas") for e in ev))
                        return
                    anc = None
                    n = nq
                    for e in ev:
                        if e[0] == "alloc":
                            anc = e[1]
                            n = nq + 1
                    meas = [e for e in ev if e[0] == "meas"]
                    ctx.check("exactly-one-measurement", len(meas) == 1)
                    if len(meas) != 1:
                        return
                    mw = meas[0][1]
                    ctx.check("measured-wire-is-ancilla-or-the-single-qubit", mw == anc if anc is not None else mw == qs[[i for i, b in enumerate(body) if b != "I"][0]].qubit_id)
                    ok_all = True
                    for mval in (0, 1):
                        U = cyc.eye(2 ** n)
                        done = False
                        for e in ev:
                            if e[0] == "gate":
                                U = _apply(U, e, n)
                            elif e[0] == "meas":
                                U = cyc.matmul(_proj(mw, mval, n), U)
                                done = True
                        if anc is not None:
                            # K_m = rows with anc == m, columns with anc == 0  (ancilla is the last wire: id nq)
                            ctx.check("ancilla-is-the-next-free-id", anc == nq)
                            K = [[U[(r << 1) | mval][(c << 1)] for c in range(2 ** nq)] for r in range(2 ** nq)]
                        else:
                            K = U
                        P = _pauli_string(body, nq)
                        sign = cyc.ONE if mval == 0 else -cyc.ONE
                        E = [[(cyc.ONE if r == c else cyc.ZERO) + sign * P[r][c] for c in range(2 ** nq)] for r in range(2 ** nq)]
                        E = [[x.half() for x in row] for row in E]
                        ok_all = ok_all and cyc.eq_up_to_phase(K, E)
                        # |phase| == 1: the pivot ratio must have unit modulus so that probabilities are right
                        piv = next(((r, c) for r in range(2 ** nq) for c in range(2 ** nq) if not E[r][c].is_zero()), None)
                        ok_all = ok_all and piv is not None and (K[piv[0]][piv[1]] * K[piv[0]][piv[1]].conj() == E[piv[0]][piv[1]] * E[piv[0]][piv[1]].conj())
                    ctx.check("kraus-operators-are-the-parity-projectors (distribution and post-state, any input)", ok_all)
                    # classical post-processing: value left in the handle for outcome mval
                    good = True
                    for mval in (0, 1):
                        st = ProtoState()
                        for c in cmds:
                            if isinstance(c, ICmd) and c.instruction == GenericInstr.MEAS:
                                st.regs[c.operands[1]] = mval
                            elif isinstance(c, ICmd):
                                st.step(c)
                        if isinstance(m, Future):
                            got = st.arrays[m._address][m._index]
                        elif isinstance(m, RegFuture):
                            got = st.regs[m.reg]
                        else:
                            got = m
                        good = good and got == (mval ^ (1 if neg else 0))
                    ctx.check("returned-handle-holds-parity-with-sign", good)
                return f
            R.add(f"parity_meas[len={nq}][{'neg' if neg else 'pos'}]", kind="exact", samples=min(64, 4 ** nq) * 2, max_paths=200)(mk())

    def parity_errors(ctx):
        conn = fresh_conn()
        qs = [ctx.call(Qubit, conn) for _ in range(2)]
        bad = ctx.choice("bad", ["Z", "ZZZ", "-Z", "ZA", "-XQ", "zz", "Z-"])
        out = ctx.attempt(TM.parity_meas, qs, bad)
        ctx.check("rejected-with-ValueError", out[0] == "exc" and isinstance(out[1], ValueError))
    R.add("parity_meas[errors]", kind="exact", samples=14)(parity_errors)

    def state_prep_lemma(ctx):
        # Rz(phi) Ry(theta) |0> = e^{-i phi/2} ( cos(theta/2)|0> + e^{i phi} sin(theta/2)|1> );  u = e^{i phi/2} = a + i b
        a, b, c, s = z3.Reals("a b c s")
        pre = z3.And(a * a + b * b == 1, c * c + s * s == 1)
        # Ry(theta)|0> = (c, s);  Rz(phi) = diag(u*, u):  amplitudes  ((a - ib) c, (a + ib) s)
        amp0 = (a * c, -b * c)
        amp1 = (a * s, b * s)
        # documented state times the global phase u* :  u* c,  u* (u*u) s = u s
        uu = (a * a - b * b, 2 * a * b)
        doc1_re = a * (uu[0] * s) + b * (uu[1] * s)
        doc1_im = a * (uu[1] * s) - b * (uu[0] * s)
        goal = z3.And(amp1[0] == doc1_re, amp1[1] == doc1_im)
        if ctx.symbolic:
            ctx.it.pc.append(pre)
            ctx.check("Rz(phi)Ry(theta)|0> is the documented state up to a global phase", mk_bool(goal))
        else:
            import math
            th, ph = ctx.real("theta", -7, 7), ctx.real("phi", -7, 7)
            A, B, C, S = math.cos(ph / 2), math.sin(ph / 2), math.cos(th / 2), math.sin(th / 2)
            UU = (A * A - B * B, 2 * A * B)
            ctx.check("Rz(phi)Ry(theta)|0> is the documented state up to a global phase",
                      abs(A * S - (A * UU[0] * S + B * UU[1] * S)) < 1e-12 and abs(B * S - (A * UU[1] * S - B * UU[0] * S)) < 1e-12)
    R.add("set_qubit_state[spec-lemma]", kind="nra", samples=20)(state_prep_lemma)

    def state_prep_emission(ctx):
        th = ctx.real("theta", -7.0, 7.0)
        ph = ctx.real("phi", -7.0, 7.0)
        conn = fresh_conn()
        q = Qubit(conn)
        n0 = len(pending(conn))
        SP.set_qubit_state(q, phi=ph, theta=th)
        ev = quantum_events(pending(conn))[2:]
        import fractions
        import math
        gl = [e for e in ev if e[0] == "gate"]
        names = [e[1] for e in gl]
        k = names.index("rot_z") if "rot_z" in names else len(names)
        ctx.check("emits rot_Y steps then rot_Z steps, all on the qubit",
                  all(x == "rot_y" for x in names[:k]) and all(x == "rot_z" for x in names[k:]) and all(e[2] == [q.qubit_id] for e in gl))

        def total(evs):
            return float(sum(fractions.Fraction(e[3][0], 2 ** e[3][1]) for e in evs)) * math.pi

        def close(x, target):
            d = abs(x - target % (2 * math.pi))
            return min(d, abs(d - 2 * math.pi)) <= 1e-4 * (1 + 1e-9) + 1e-12
        ctx.check("rot_Y steps add up to theta (mod 2pi) within the tolerance", close(total(gl[:k]), th))
        ctx.check("rot_Z steps add up to phi (mod 2pi) within the tolerance", close(total(gl[k:]), ph))
    R.add("set_qubit_state[emission]", kind="bounded", bounded_only=True, samples=60,
          note="bounded: 60 sampled (theta, phi) in [-7, 7]^2; step lists are those C19 proves within tolerance")(state_prep_emission)

    def canary(ctx):
        conn = fresh_conn()
        qs = [ctx.call(Qubit, conn) for _ in range(2)]
        ctx.call(TM.parity_meas, qs, "XZ")
        ev = quantum_events(pending(conn))[4:]
        U = cyc.eye(8)
        for e in ev:
            if e[0] == "gate":
                U = _apply(U, e, 3)
            elif e[0] == "meas":
                U = cyc.matmul(_proj(2, 0, 3), U)
        K = [[U[(r << 1)][(c << 1)] for c in range(4)] for r in range(4)]
        P = _pauli_string("ZX", 2)
        E = [[((cyc.ONE if r == c else cyc.ZERO) + P[r][c]).half() for c in range(4)] for r in range(4)]
        ctx.check("XZ-measures-ZX", cyc.eq_up_to_phase(K, E))
    R.canary("parity-string-order", kind="exact", samples=1)(canary)
    return R
