import argparse
import importlib
import os
import sys


def main():
    ap = argparse.ArgumentParser()
    ap.add_argument("prop")
    ap.add_argument("--tier", default=os.environ.get("VERIF_TIER", "quick"))
    ap.add_argument("--replay")
    ap.add_argument("--only")
    ap.add_argument("--jobs", type=int)
    ap.add_argument("--list", action="store_true")
    a = ap.parse_args()
    os.environ["VERIF_TIER"] = a.tier
    seed = int(os.environ.get("VERIF_SEED", "0") or 0)
    try:
        mod = importlib.import_module("checks." + a.prop.lower())
        import netqasm
        root = os.environ.get("VERIF_REPO", "/repo")
        if not os.path.abspath(netqasm.__file__).startswith(os.path.abspath(root) + os.sep):
            print(f"CRASH: netqasm imported from {netqasm.__file__}, expected under {root}")
            return 3
        reg = mod.build()
        reg.module = "checks." + a.prop.lower()
    except BaseException as e:
        import traceback
        traceback.print_exc()
        print(f"CRASH property={a.prop}: cannot build obligations: {type(e).__name__}: {e}")
        return 3
    from pyvc import harness
    if a.list:
        for o in reg.obls:
            print(o.name, o.kind, o.expect)
        return 0
    if a.replay:
        return harness.replay_file(reg, a.replay)
    return harness.run_property(reg, tier=a.tier, seed=seed, jobs=a.jobs, only=a.only,
                                level=getattr(mod, "LEVEL", "proof"), technique=getattr(mod, "TECHNIQUE", ""))


if __name__ == "__main__":
    sys.exit(main())
