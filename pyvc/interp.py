"""pyvc.interp -- symbolic interpreter of Python ASTs (the VC generator's front end).

Executes the *real* function bodies of /repo/netqasm (source re-read from disk on
every run, located through ``fn.__code__``), with values from ``pyvc.values``.
A symbolic branch condition forks the path; forking is done by *decision replay*:
``explore(f)`` re-runs ``f`` once per feasible decision sequence, so heap objects
can be ordinary mutable Python objects.

Functions whose code lives under the repository root are interpreted; everything
else (builtins, stdlib, third party) is called natively when its arguments are
concrete, or goes through an explicit library model (``pyvc.models``) when they
are symbolic; otherwise ``Unsupported`` is raised (=> undecided, never guessed).
"""
from __future__ import annotations

import ast
import builtins
import ctypes
import dataclasses
import enum
import hashlib
import inspect
import logging
import operator
import os
import sys
import threading
import types

import z3

from .values import (Internal, SBool, SEnum, SInt, SReal, Sym, SymBytes, SymBytesFn, SymCArray, SymStructArray,
                     SymEscape, SymStruct, Unsupported, has_sym, lift, lift_int, lift_real,
                     mk_bool, mk_int)

sys.setrecursionlimit(100000)
threading.stack_size(256 * 1024 * 1024)

REPO_ROOT = os.environ.get("VERIF_REPO", "/repo")


# ------------------------------------------------------------------ control signals
class PyExc(Internal):
    """An exception of the interpreted program."""

    def __init__(self, e):
        self.e = e

    def __repr__(self):
        return f"PyExc({type(self.e).__name__}: {self.e})"
    __str__ = __repr__


class _Return(Internal):
    def __init__(self, v):
        self.v = v


class _Break(Internal):
    pass


class _Continue(Internal):
    pass


class _Kill(Internal):
    """unwinds an abandoned generator thread at path end"""


class PathAbort(Internal):
    """path infeasible / pruned"""


# ------------------------------------------------------------------ source index
class SourceIndex:
    def __init__(self):
        self.files = {}
        self.used = {}          # qualname -> (file, first, last, sha1)

    def _load(self, filename):
        if filename not in self.files:
            with open(filename) as fh:
                src = fh.read()
            tree = ast.parse(src)
            idx = {}
            for node in ast.walk(tree):
                if isinstance(node, (ast.FunctionDef, ast.AsyncFunctionDef)):
                    first = min([d.lineno for d in node.decorator_list] + [node.lineno])
                    idx.setdefault(first, []).append(node)
                    idx.setdefault(node.lineno, []).append(node)
                elif isinstance(node, ast.Lambda):
                    idx.setdefault(node.lineno, []).append(node)
            self.files[filename] = (src.splitlines(), idx)
        return self.files[filename]

    def node_of(self, fn):
        code = fn.__code__
        lines, idx = self._load(code.co_filename)
        cands = idx.get(code.co_firstlineno, [])
        name = code.co_name
        for n in cands:
            if isinstance(n, ast.Lambda) and name == "<lambda>":
                return n
            if not isinstance(n, ast.Lambda) and n.name == name:
                self._note(fn, code.co_filename, lines, n)
                return n
        raise Unsupported(f"no source node for {fn!r} at {code.co_filename}:{code.co_firstlineno}")

    def _note(self, fn, filename, lines, n):
        q = f"{fn.__module__}.{fn.__qualname__}"
        if q not in self.used:
            first = min([d.lineno for d in n.decorator_list] + [n.lineno])
            last = n.end_lineno
            sha = hashlib.sha1("\n".join(lines[first - 1:last]).encode()).hexdigest()[:12]
            if filename.startswith(REPO_ROOT + os.sep):
                self.used[q] = (os.path.relpath(filename, REPO_ROOT), first, last, sha)


SOURCES = SourceIndex()


SPEC_ROOT = os.path.join(os.path.dirname(os.path.dirname(os.path.abspath(__file__))), "specs")
GEN_ROOT = os.path.join(os.path.dirname(os.path.dirname(os.path.abspath(__file__))), ".gen")      # sources rewritten mechanically from /repo on every run


def is_repo_code(code):
    """code that is interpreted from its AST: the repository, and the spec functions the contracts refer to"""
    fn = getattr(code, "co_filename", "")
    return fn.startswith(REPO_ROOT + os.sep) or fn.startswith(SPEC_ROOT + os.sep) or fn.startswith(GEN_ROOT + os.sep)


def is_repo_function(f):
    return isinstance(f, types.FunctionType) and is_repo_code(f.__code__)


# ------------------------------------------------------------------ scopes / closures
class Scope:
    __slots__ = ("vars", "parent", "fn_globals", "cells", "klass", "self0", "fn_qual", "fn_node", "gnames")

    def __init__(self, parent=None, fn_globals=None, cells=None):
        self.vars = {}
        self.parent = parent
        self.fn_qual = parent.fn_qual if parent is not None else None
        self.fn_node = parent.fn_node if parent is not None else None
        self.fn_globals = fn_globals if fn_globals is not None else (parent.fn_globals if parent else {})
        self.cells = cells or {}
        self.klass = None
        self.self0 = None
        self.gnames = parent.gnames if parent is not None else None      # names declared ``global`` in the enclosing function

    def lookup(self, name):
        s = self
        while s is not None:
            if name in s.vars:
                return s.vars[name]
            if name in s.cells:
                try:
                    return s.cells[name].cell_contents
                except ValueError:
                    raise PyExc(NameError(f"free variable '{name}' referenced before assignment"))
            s = s.parent
        g = self.fn_globals
        if name in g:
            return g[name]
        try:
            return getattr(builtins, name)
        except AttributeError:
            raise PyExc(NameError(f"name '{name}' is not defined"))


class IFunc:
    """closure created by interpreting a ``def``/``lambda`` inside an interpreted body"""

    def __init__(self, node, scope, defaults, kw_defaults, name):
        self.node = node
        self.scope = scope
        self.defaults = defaults
        self.kw_defaults = kw_defaults
        self.__name__ = name
        self.__qualname__ = name
        self.is_gen = _contains_yield(node)

    def __repr__(self):
        return f"<IFunc {self.__name__}>"


_YIELD_CACHE = {}


def _contains_yield(node):
    k = id(node)
    if k not in _YIELD_CACHE:
        found = False
        body = node.body if isinstance(node.body, list) else [node.body]
        stack = list(body)
        while stack:
            n = stack.pop()
            if isinstance(n, (ast.Yield, ast.YieldFrom)):
                found = True
                break
            if isinstance(n, (ast.FunctionDef, ast.Lambda, ast.ClassDef, ast.AsyncFunctionDef)):
                continue
            stack.extend(ast.iter_child_nodes(n))
        _YIELD_CACHE[k] = (found, node)
    return _YIELD_CACHE[k][0]


class IMethod:
    def __init__(self, func, self_obj):
        self.func = func
        self.self_obj = self_obj


class ISuper:
    def __init__(self, klass, obj):
        self.klass = klass
        self.obj = obj


class StructCtor:
    """``ctypes.Structure.__init__`` reached through ``super().__init__`` (library model)."""

    def __init__(self, obj):
        self.obj = obj


# ------------------------------------------------------------------ generators (thread based)
class IGen:
    """Interpreted generator object.  The body runs in its own thread in strict lock-step
    with its consumer, which gives exact generator semantics (incl. ``yield from``, and
    ``@contextmanager``) without rewriting the interpreter in CPS."""

    def __init__(self, it, runner, name="gen"):
        self.it = it
        self.runner = runner
        self.name = name
        self.started = False
        self.done = False
        self.result = None
        self._to_gen = threading.Semaphore(0)
        self._to_cons = threading.Semaphore(0)
        self._msg = None          # ('send', v) | ('throw', PyExc) | ('kill',)
        self._out = None          # ('yield', v) | ('return', v) | ('raise', exc)
        self.thread = None
        it.gens.append(self)

    # --- generator side
    def _body(self):
        self._to_gen.acquire()
        tl = self.it.tl
        tl.gen = self
        try:
            m = self._msg
            if m[0] == "kill":
                return
            if m[0] == "throw":
                raise m[1]
            v = self.runner()
            self._out = ("return", v)
        except _Kill:
            self._out = ("killed",)
        except BaseException as e:          # PyExc and internal errors alike travel to the consumer
            self._out = ("raise", e)
        finally:
            self.done = True
            self._to_cons.release()

    def yield_(self, v):
        self._out = ("yield", v)
        self._to_cons.release()
        self._to_gen.acquire()
        m = self._msg
        if m[0] == "kill":
            raise _Kill()
        if m[0] == "throw":
            raise m[1]
        return m[1]

    # --- consumer side
    def _resume(self, msg):
        if self.done:
            if msg[0] == "throw":
                raise msg[1]
            raise PyExc(StopIteration())
        if not self.started:
            self.started = True
            self.thread = threading.Thread(target=self._body, daemon=True)
            self.thread.start()
        self._msg = msg
        self._to_gen.release()
        self._to_cons.acquire()
        out = self._out
        if out[0] == "yield":
            return out[1]
        if out[0] == "return":
            self.result = out[1]
            e = StopIteration(out[1])
            raise PyExc(e)
        if out[0] == "raise":
            raise out[1]
        return None

    def send(self, v=None):
        return self._resume(("send", v))

    def throw(self, exc):
        if not self.started:
            self.done = True
            raise exc
        return self._resume(("throw", exc))

    def kill(self):
        if self.started and not self.done:
            self._msg = ("kill",)
            self._to_gen.release()
            self._to_cons.acquire()
        self.done = True


class ICtxMgr:
    """@contextmanager-wrapped interpreted generator"""

    def __init__(self, gen):
        self.gen = gen


# ------------------------------------------------------------------ path record
class Path:
    def __init__(self):
        self.pc = []
        self.outcome = None        # ('ret', v) | ('exc', exception)
        self.notes = {}


_LOGGER_TYPES = (logging.Logger, logging.LoggerAdapter)


def _is_logger_call(f):
    s = getattr(f, "__self__", None)
    return isinstance(s, _LOGGER_TYPES)


_CMP = {ast.Eq: operator.eq, ast.NotEq: operator.ne, ast.Lt: operator.lt, ast.LtE: operator.le,
        ast.Gt: operator.gt, ast.GtE: operator.ge}
_BIN = {ast.Add: operator.add, ast.Sub: operator.sub, ast.Mult: operator.mul, ast.FloorDiv: operator.floordiv,
        ast.Mod: operator.mod, ast.Pow: operator.pow, ast.Div: operator.truediv, ast.LShift: operator.lshift,
        ast.RShift: operator.rshift, ast.BitAnd: operator.and_, ast.BitOr: operator.or_, ast.BitXor: operator.xor,
        ast.MatMult: operator.matmul}


class Interp:
    """One path of symbolic execution."""

    def __init__(self, decisions=(), assume=(), models=None, stubs=None, max_steps=2_000_000):
        from . import models as _m
        self.pc = []
        self.assume = list(assume)
        self.decisions = list(decisions)
        self.pos = 0
        self.gens = []
        self.tl = threading.local()
        self.stubs = stubs or {}            # function object / qualname -> handler(it, args, kwargs)
        self.models = _m
        self.steps = 0
        self.max_steps = max_steps
        self._solver = None
        self._solver_n = 0
        self.fresh_ctr = 0
        self.notes = {}
        self.exc_stack = []
        self.trace_calls = None             # optional list collecting interpreted qualnames
        self.loop_contracts = {}            # (function qualname, loop ordinal) -> handler(it, stmt, scope)
        self.comp_contracts = {}            # (function qualname, comprehension ordinal) -> handler(it, expr, scope)
        self.pow_uf = False
        self.global_undo = []

    # ---------------------------------------------------------------- solver / forking
    def solver(self):
        if self._solver is None:
            self._solver = z3.Solver()
            self._solver.set("timeout", 30000)
            for a in self.assume:
                self._solver.add(a)
            self._solver_n = 0
        while self._solver_n < len(self.pc):
            self._solver.add(self.pc[self._solver_n])
            self._solver_n += 1
        return self._solver

    def add_assumption(self, f):
        """add a fact to the path condition (e.g. range constraint of a fresh symbol)"""
        if isinstance(f, Sym):
            f = f.t
        if f is True:
            return
        if f is False:
            raise PathAbort()
        self.pc.append(f)

    def fresh_int(self, name, lo=None, hi=None):
        self.fresh_ctr += 1
        v = z3.Int(f"{name}")
        if lo is not None:
            self.pc.append(v >= lo)
        if hi is not None:
            self.pc.append(v <= hi)
        return SInt(v)

    def decide(self, cond):
        """truth of a symbolic condition on this path (forks by replay)"""
        c = z3.simplify(cond)
        if z3.is_true(c):
            return True
        if z3.is_false(c):
            return False
        s = self.solver()
        r1 = s.check(z3.Not(c))
        if r1 == z3.unsat:
            return True
        r2 = s.check(c)
        if r2 == z3.unsat:
            return False
        if r1 == z3.unknown or r2 == z3.unknown:
            self.notes.setdefault("unknown_decisions", 0)
            self.notes["unknown_decisions"] += 1
        if self.pos < len(self.decisions):
            d = self.decisions[self.pos]
        else:
            d = True
            self.decisions.append(True)
        self.pos += 1
        self.pc.append(c if d else z3.Not(c))
        return d

    def feasible(self):
        return self.solver().check() != z3.unsat

    def truth(self, v):
        if isinstance(v, SBool):
            return self.decide(v.t)
        if isinstance(v, SInt):
            return self.decide(v.t != 0)
        if isinstance(v, SReal):
            return self.decide(v.t != 0)
        if isinstance(v, SEnum):
            return True
        if isinstance(v, (SymBytes,)):
            return len(v) > 0
        if isinstance(v, SymBytesFn):
            return self.decide(v.length > 0)
        if isinstance(v, SymStruct):
            return True
        m = self.models.truth(self, v)
        if m is not None:
            return m
        try:
            return bool(v)
        except SymEscape:
            raise
        except Internal:
            raise
        except Exception as e:
            raise PyExc(e)

    def cleanup(self):
        for g in self.gens:
            try:
                g.kill()
            except BaseException:
                pass
        self.gens = []
        for g, name, had, old in reversed(self.global_undo):
            if had:
                g[name] = old
            else:
                g.pop(name, None)
        self.global_undo = []

    # ---------------------------------------------------------------- calling
    def call(self, fn, args=(), kwargs=None):
        kwargs = kwargs or {}
        self.steps += 1
        if self.steps > self.max_steps:
            raise Unsupported("step budget exhausted")
        # stubs (contracts standing in for callees)
        if self.stubs:
            key = fn
            if isinstance(fn, types.MethodType):
                key = fn.__func__
            elif isinstance(fn, IMethod):
                key = fn.func
            h = None
            try:
                h = self.stubs.get(key)
            except TypeError:
                h = None
            if h is None and hasattr(key, "__qualname__") and hasattr(key, "__module__"):
                h = self.stubs.get(f"{getattr(key, '__module__', '')}.{key.__qualname__}")
            if h is not None:
                if isinstance(fn, types.MethodType):
                    return h(self, [fn.__self__] + list(args), kwargs)
                if isinstance(fn, IMethod):
                    return h(self, [fn.self_obj] + list(args), kwargs)
                return h(self, list(args), kwargs)
        if isinstance(fn, IFunc):
            return self.call_ifunc(fn, args, kwargs)
        if isinstance(fn, IMethod):
            return self.call(fn.func, [fn.self_obj] + list(args), kwargs)
        if isinstance(fn, StructCtor):
            return self.models.struct_init(self, fn.obj, args, kwargs)
        if isinstance(fn, types.MethodType):
            f = fn.__func__
            if is_repo_function(f) or isinstance(f, IFunc):
                return self.call(f, [fn.__self__] + list(args), kwargs)
            w = getattr(f, "__wrapped__", None)
            if w is not None and isinstance(f, types.FunctionType) and (is_repo_function(w) or isinstance(w, IFunc)) \
                    and f.__code__.co_filename.endswith(("contextlib.py", "functools.py")):
                return self.call(f, [fn.__self__] + list(args), kwargs)
            r = self.models.call(self, fn, args, kwargs)
            if r is not NotImplemented:
                return r
            return self.native(fn, args, kwargs)
        if isinstance(fn, types.FunctionType):
            if is_repo_function(fn):
                return self.call_repo_function(fn, args, kwargs)
            w = getattr(fn, "__wrapped__", None)
            if w is not None and fn.__code__.co_filename.endswith("contextlib.py") and (is_repo_function(w) or isinstance(w, IFunc)):
                g = self.call(w, args, kwargs)
                return ICtxMgr(g)
            if w is not None and is_repo_function(w) and fn.__code__.co_filename.endswith("functools.py"):
                return self.call(w, args, kwargs)
        if isinstance(fn, type):
            return self.instantiate(fn, args, kwargs)
        r = self.models.call(self, fn, args, kwargs)
        if r is not NotImplemented:
            return r
        return self.native(fn, args, kwargs)

    def native(self, fn, args, kwargs):
        if _is_logger_call(fn):
            return None
        if getattr(getattr(fn, "__self__", None), "_pyvc_ghost", False) or getattr(fn, "_pyvc_ghost", False):
            try:
                return fn(*args, **kwargs)       # ghost object supplied by a contract: takes symbolic values
            except Internal:
                raise
            except Exception as e:
                raise PyExc(e)
        # object.__setattr__ (also as super().__setattr__ from an overriding __setattr__) stores a reference on a real heap object: any value may be stored
        if fn is object.__setattr__ and len(args) == 3 and isinstance(args[1], str) and not kwargs:
            object.__setattr__(args[0], args[1], args[2])
            return None
        if getattr(fn, "__name__", "") == "__setattr__" and getattr(fn, "__objclass__", None) is object and hasattr(fn, "__self__") \
                and len(args) == 2 and isinstance(args[0], str) and not kwargs:
            object.__setattr__(fn.__self__, args[0], args[1])
            return None
        for a in list(args) + list(kwargs.values()):
            if has_sym(a, 3) or isinstance(a, (IFunc, IGen)):
                raise Unsupported(f"native call {getattr(fn, '__qualname__', fn)!r} with symbolic/interpreted argument {type(a).__name__}")
        try:
            return fn(*args, **kwargs)
        except Internal:
            raise
        except Exception as e:
            raise PyExc(e)

    def bind(self, sig_params, args, kwargs, fname):
        """bind by an inspect.Signature (real functions)"""
        try:
            ba = sig_params.bind(*args, **kwargs)
        except TypeError as e:
            raise PyExc(TypeError(f"{fname}() {e}"))
        ba.apply_defaults()
        return ba.arguments

    _SIG_CACHE = {}

    def call_repo_function(self, fn, args, kwargs):
        node = SOURCES.node_of(fn)
        if self.trace_calls is not None:
            self.trace_calls.append(f"{fn.__module__}.{fn.__qualname__}")
        sig = self._SIG_CACHE.get(fn)
        if sig is None:
            sig = self._SIG_CACHE[fn] = inspect.signature(fn)
        bound = self.bind(sig, args, kwargs, fn.__name__)
        cells = {}
        if fn.__closure__:
            cells = dict(zip(fn.__code__.co_freevars, fn.__closure__))
        sc = Scope(None, fn.__globals__, cells)
        for p in sig.parameters.values():
            v = bound[p.name]
            if p.kind == p.VAR_POSITIONAL:
                v = tuple(v)
            sc.vars[p.name] = v
        if "__class__" in cells:
            try:
                sc.klass = cells["__class__"].cell_contents
            except ValueError:
                pass
        if args:
            sc.self0 = args[0]
        elif bound:
            sc.self0 = next(iter(bound.values()))
        sc.fn_qual = f"{fn.__module__}.{fn.__qualname__}"
        sc.fn_node = node
        return self.run_body(node, sc, fn.__qualname__)

    def call_ifunc(self, f, args, kwargs):
        node = f.node
        a = node.args
        sc = Scope(f.scope)
        sc.gnames = None
        sc.klass = f.scope.klass if f.scope else None
        posnames = [x.arg for x in a.posonlyargs + a.args]
        args = list(args)
        if len(args) > len(posnames) and a.vararg is None:
            raise PyExc(TypeError(f"{f.__name__}() takes {len(posnames)} positional arguments but {len(args)} were given"))
        for n, v in zip(posnames, args):
            sc.vars[n] = v
        if a.vararg is not None:
            sc.vars[a.vararg.arg] = tuple(args[len(posnames):])
        kwargs = dict(kwargs)
        ndef = len(f.defaults)
        for i, n in enumerate(posnames):
            if n in sc.vars:
                if n in kwargs:
                    raise PyExc(TypeError(f"{f.__name__}() got multiple values for argument '{n}'"))
                continue
            if n in kwargs:
                sc.vars[n] = kwargs.pop(n)
            else:
                j = i - (len(posnames) - ndef)
                if j >= 0:
                    sc.vars[n] = f.defaults[j]
                else:
                    raise PyExc(TypeError(f"{f.__name__}() missing required argument '{n}'"))
        for x, d in zip(a.kwonlyargs, f.kw_defaults):
            if x.arg in kwargs:
                sc.vars[x.arg] = kwargs.pop(x.arg)
            elif d is not _NODEFAULT:
                sc.vars[x.arg] = d
            else:
                raise PyExc(TypeError(f"{f.__name__}() missing keyword-only argument '{x.arg}'"))
        if a.kwarg is not None:
            sc.vars[a.kwarg.arg] = kwargs
        elif kwargs:
            raise PyExc(TypeError(f"{f.__name__}() got an unexpected keyword argument '{next(iter(kwargs))}'"))
        if posnames and posnames[0] in sc.vars:
            sc.self0 = sc.vars[posnames[0]]
        return self.run_body(node, sc, f.__name__)

    def run_body(self, node, sc, name):
        if isinstance(node, ast.Lambda):
            return self.ev(node.body, sc)
        if _contains_yield(node):
            def runner():
                try:
                    self.exec_block(node.body, sc)
                except _Return as r:
                    return r.v
                return None
            return IGen(self, runner, name)
        try:
            self.exec_block(node.body, sc)
        except _Return as r:
            return r.v
        return None

    # ---------------------------------------------------------------- object construction
    def instantiate(self, cls, args, kwargs):
        r = self.models.construct(self, cls, args, kwargs)
        if r is not NotImplemented:
            return r
        if issubclass(cls, ctypes.Structure):
            obj = SymStruct(cls)
            init = self.class_lookup(cls, "__init__")
            if is_repo_function(init):
                self.call(init, [obj] + list(args), kwargs)
            else:
                self.models.struct_init(self, obj, args, kwargs)
            return obj
        if issubclass(cls, ctypes.Array) and issubclass(cls._type_, ctypes.Structure):
            if kwargs or len(args) > cls._length_:
                raise PyExc(IndexError("invalid index"))
            elems = list(args) + [SymStruct(cls._type_) for _ in range(cls._length_ - len(args))]
            for e in elems:
                if not (isinstance(e, SymStruct) and e.S is cls._type_):
                    raise PyExc(TypeError(f"expected {cls._type_.__name__} instance"))
            return SymStructArray(cls, elems)
        if issubclass(cls, enum.Enum):
            return self.models.enum_lookup(self, cls, args, kwargs)
        if issubclass(cls, BaseException) and not self._has_repo_init(cls):
            return self.models.keep_args(self.native(cls, [self.models.concretize_msg(a) for a in args], kwargs), args)
        if self._is_repo_class(cls):
            new = self.class_lookup(cls, "__new__")
            if new is object.__new__ or issubclass(cls, BaseException):
                if issubclass(cls, BaseException):
                    obj = cls.__new__(cls, *[self.models.concretize_msg(a) for a in args])
                else:
                    try:
                        obj = object.__new__(cls)
                    except TypeError as e:       # abstract class
                        raise PyExc(e)
            elif is_repo_function(getattr(new, "__func__", new)):
                obj = self.call(getattr(new, "__func__", new), [cls] + list(args), kwargs)
                if not isinstance(obj, cls):
                    return obj
            else:
                if issubclass(cls, tuple):       # namedtuple
                    return self.native_allow_sym(cls, args, kwargs)
                raise Unsupported(f"__new__ of {cls}")
            init = self.class_lookup(cls, "__init__")
            if is_repo_function(init):
                self.call(init, [obj] + list(args), kwargs)
            elif dataclasses.is_dataclass(cls) and getattr(init, "__code__", None) is not None and init.__code__.co_filename == "<string>":
                self.dataclass_init(cls, obj, args, kwargs)
            elif init is object.__init__:
                if args or kwargs:
                    raise PyExc(TypeError(f"{cls.__name__}() takes no arguments"))
            elif issubclass(cls, BaseException):
                pass
            else:
                raise Unsupported(f"__init__ of {cls}: {init}")
            return obj
        if issubclass(cls, tuple) and hasattr(cls, "_fields"):
            return self.native_allow_sym(cls, args, kwargs)
        return self.native(cls, args, kwargs)

    def native_allow_sym(self, fn, args, kwargs):
        try:
            return fn(*args, **kwargs)
        except Internal:
            raise
        except Exception as e:
            raise PyExc(e)

    _REPO_CLASS_CACHE = {}

    def _is_repo_class(self, cls):
        """class defined in the repository, or a (harness) subclass of one: attribute access then follows the MRO
        so that inherited repository methods / properties are interpreted"""
        r = self._REPO_CLASS_CACHE.get(cls)
        if r is None:
            r = False
            for k in getattr(cls, "__mro__", (cls,)):
                mod = sys.modules.get(getattr(k, "__module__", None))
                f = getattr(mod, "__file__", None) or ""
                if f.startswith(REPO_ROOT + os.sep):
                    r = True
                    break
            self._REPO_CLASS_CACHE[cls] = r
        return r

    def _has_repo_init(self, cls):
        return is_repo_function(self.class_lookup(cls, "__init__"))

    def class_lookup(self, cls, name):
        for k in cls.__mro__:
            if name in k.__dict__:
                return k.__dict__[name]
        return None

    def dataclass_init(self, cls, obj, args, kwargs):
        flds = [f for f in dataclasses.fields(cls)]
        init_f = [f for f in flds if f.init]
        if len(args) > len(init_f):
            raise PyExc(TypeError(f"{cls.__name__}.__init__() takes {len(init_f) + 1} positional arguments but {len(args) + 1} were given"))
        vals = {}
        for f, v in zip(init_f, args):
            vals[f.name] = v
        for k, v in kwargs.items():
            if k in vals:
                raise PyExc(TypeError(f"{cls.__name__}.__init__() got multiple values for argument '{k}'"))
            if k not in [f.name for f in init_f]:
                raise PyExc(TypeError(f"{cls.__name__}.__init__() got an unexpected keyword argument '{k}'"))
            vals[k] = v
        for f in flds:
            if f.name in vals:
                v = vals[f.name]
            elif f.default is not dataclasses.MISSING:
                v = f.default
            elif f.default_factory is not dataclasses.MISSING:
                v = self.call(f.default_factory, [], {})
            elif f.init:
                raise PyExc(TypeError(f"{cls.__name__}.__init__() missing required argument: '{f.name}'"))
            else:
                continue
            object.__setattr__(obj, f.name, v)
        post = self.class_lookup(cls, "__post_init__")
        if post is not None:
            self.call(post, [obj], {})

    # ---------------------------------------------------------------- attribute access
    def getattr(self, o, name):
        if isinstance(o, SymStruct):
            if name in o.field_names():
                return o.load(name)        # a _fields_ descriptor shadows class-body attributes
            a = self.class_lookup(o.S, name)
            if a is None:
                raise PyExc(AttributeError(f"'{o.S.__name__}' object has no attribute '{name}'"))
            return self._bind_class_attr(a, o, o.S)
        if isinstance(o, Sym):
            return self.models.sym_getattr(self, o, name)
        if isinstance(o, (SymBytes, SymBytesFn, SymCArray)):
            return self.models.sym_getattr(self, o, name)
        if isinstance(o, ISuper):
            mro = type(o.obj).__mro__ if not isinstance(o.obj, (type, SymStruct)) else (o.obj.S.__mro__ if isinstance(o.obj, SymStruct) else o.obj.__mro__)
            i = mro.index(o.klass)
            for k in mro[i + 1:]:
                if name in k.__dict__:
                    a = k.__dict__[name]
                    if isinstance(o.obj, SymStruct) and k is ctypes.Structure and name == "__init__":
                        return StructCtor(o.obj)
                    return self._bind_class_attr(a, o.obj, type(o.obj) if not isinstance(o.obj, type) else o.obj)
            raise PyExc(AttributeError(name))
        if isinstance(o, IGen):
            return self.models.gen_getattr(self, o, name)
        if isinstance(o, IFunc):
            if name in ("__name__", "__qualname__"):
                return o.__name__
            raise PyExc(AttributeError(name))
        if isinstance(o, type):
            if issubclass(o, (ctypes.Structure, ctypes._SimpleCData, ctypes.Array)) and name in ("from_buffer_copy", "from_buffer"):
                return self.models.FromBuffer(o)
            a = self.class_lookup(o, name)
            if a is not None:
                if isinstance(a, classmethod):
                    f = a.__func__
                    return types.MethodType(f, o)
                if isinstance(a, staticmethod):
                    return a.__func__
                if isinstance(a, (types.FunctionType, property)):
                    return a
            try:
                return getattr(o, name)
            except AttributeError as e:
                raise PyExc(e)
        m = self.models.getattr_model(self, o, name)
        if m is not NotImplemented:
            return m
        cls = type(o)
        if self._is_repo_class(cls) or isinstance(o, BaseException):
            a = self.class_lookup(cls, name)
            if a is not None and hasattr(type(a), "__set__") and hasattr(type(a), "__get__"):    # data descriptor
                return self._bind_class_attr(a, o, cls)
            d = getattr(o, "__dict__", None)
            if d is not None and name in d:
                return d[name]
            if a is not None:
                return self._bind_class_attr(a, o, cls)
            ga = self.class_lookup(cls, "__getattr__")
            if ga is not None and is_repo_function(ga):
                return self.call(ga, [o, name], {})
            try:
                return getattr(o, name)
            except AttributeError as e:
                raise PyExc(e)
        try:
            return getattr(o, name)
        except Internal:
            raise
        except AttributeError as e:
            raise PyExc(e)
        except Exception as e:
            raise PyExc(e)

    def _bind_class_attr(self, a, o, cls):
        if isinstance(a, property):
            if a.fget is None:
                raise PyExc(AttributeError("unreadable attribute"))
            return self.call(a.fget, [o], {})
        if isinstance(a, types.FunctionType):
            return types.MethodType(a, o)
        if isinstance(a, IFunc):
            return IMethod(a, o)
        if isinstance(a, classmethod):
            return types.MethodType(a.__func__, cls)
        if isinstance(a, staticmethod):
            return a.__func__
        if hasattr(a, "__get__") and not isinstance(o, SymStruct):
            try:
                return a.__get__(o, cls)
            except Internal:
                raise
            except Exception as e:
                raise PyExc(e)
        return a

    def setattr(self, o, name, v):
        if isinstance(o, SymStruct):
            if name in o.field_names():
                try:
                    o.store(name, self.models._fold_opt(self, v))
                except TypeError as e:
                    raise PyExc(e)
                return
            raise Unsupported(f"setattr non-field {name} on struct")
        if isinstance(o, (Sym, SymBytes)):
            raise PyExc(AttributeError(name))
        cls = type(o)
        a = self.class_lookup(cls, name) if not isinstance(o, type) else None
        if isinstance(a, property):
            if a.fset is None:
                raise PyExc(AttributeError(f"can't set attribute '{name}'"))
            self.call(a.fset, [o, v], {})
            return
        sa = self.class_lookup(cls, "__setattr__") if not isinstance(o, type) else None
        if sa is not None and is_repo_function(sa):
            self.call(sa, [o, name, v], {})
            return
        try:
            setattr(o, name, v)
        except Internal:
            raise
        except Exception as e:
            raise PyExc(e)

    # ---------------------------------------------------------------- statements
    def exec_block(self, stmts, sc):
        for st in stmts:
            self.exec(st, sc)

    def exec(self, st, sc):
        self.steps += 1
        if self.steps > self.max_steps:
            raise Unsupported("step budget exhausted")
        m = getattr(self, "x_" + type(st).__name__, None)
        if m is None:
            raise Unsupported(f"statement {type(st).__name__} at line {getattr(st, 'lineno', '?')}")
        return m(st, sc)

    def x_Return(self, st, sc):
        raise _Return(self.ev(st.value, sc) if st.value is not None else None)

    def x_Expr(self, st, sc):
        if isinstance(st.value, ast.Constant):
            return
        self.ev(st.value, sc)

    def x_Pass(self, st, sc):
        pass

    def x_Break(self, st, sc):
        raise _Break()

    def x_Continue(self, st, sc):
        raise _Continue()

    def x_Global(self, st, sc):
        # module-level state: writes go to the function's real globals and are undone when the path ends (cleanup), so that one
        # explored path does not see what another one wrote
        sc.gnames = set(sc.gnames or ()) | set(st.names)

    def x_Nonlocal(self, st, sc):
        raise Unsupported("nonlocal statement")

    def x_Import(self, st, sc):
        import importlib
        for a in st.names:
            mod = importlib.import_module(a.name)
            if a.asname:
                sc.vars[a.asname] = mod
            else:
                sc.vars[a.name.split(".")[0]] = importlib.import_module(a.name.split(".")[0])

    def x_ImportFrom(self, st, sc):
        import importlib
        pkg = sc.fn_globals.get("__package__")
        mod = importlib.import_module("." * st.level + (st.module or ""), pkg) if st.level else importlib.import_module(st.module)
        for a in st.names:
            try:
                v = getattr(mod, a.name)
            except AttributeError:
                v = importlib.import_module(mod.__name__ + "." + a.name)
            sc.vars[a.asname or a.name] = v

    def x_Assign(self, st, sc):
        v = self.ev(st.value, sc)
        for t in st.targets:
            self.assign(t, v, sc)

    def x_AnnAssign(self, st, sc):
        if st.value is not None:
            self.assign(st.target, self.ev(st.value, sc), sc)

    def x_AugAssign(self, st, sc):
        t = st.target
        if isinstance(t, ast.Name):
            cur = sc.lookup(t.id)
            new = self.inplace(st.op, cur, self.ev(st.value, sc))
            self._store_name(t.id, new, sc)
        elif isinstance(t, ast.Attribute):
            o = self.ev(t.value, sc)
            cur = self.getattr(o, t.attr)
            new = self.inplace(st.op, cur, self.ev(st.value, sc))
            self.setattr(o, t.attr, new)
        elif isinstance(t, ast.Subscript):
            o = self.ev(t.value, sc)
            k = self.ev_slice(t.slice, sc)
            cur = self.getitem(o, k)
            new = self.inplace(st.op, cur, self.ev(st.value, sc))
            self.setitem(o, k, new)
        else:
            raise Unsupported("augassign target")

    def inplace(self, op, cur, val):
        if isinstance(op, ast.Add) and isinstance(cur, list) and not has_sym(cur, 0):
            m = self.models.list_iadd(self, cur, val)
            if m is not NotImplemented:
                return m
        return self.binop(op, cur, val)

    def x_Delete(self, st, sc):
        for t in st.targets:
            if isinstance(t, ast.Name):
                del sc.vars[t.id]
            elif isinstance(t, ast.Subscript):
                o = self.ev(t.value, sc)
                k = self.ev_slice(t.slice, sc)
                self.delitem(o, k)
            elif isinstance(t, ast.Attribute):
                o = self.ev(t.value, sc)
                try:
                    delattr(o, t.attr)
                except Exception as e:
                    raise PyExc(e)
            else:
                raise Unsupported("del target")

    def x_Assert(self, st, sc):
        if not self.truth(self.ev(st.test, sc)):
            msg = None
            if st.msg is not None:
                try:
                    msg = self.models.concretize_msg(self.ev(st.msg, sc))
                except Internal as e:
                    if isinstance(e, (PyExc, PathAbort, _Kill)):
                        raise
                    msg = "<msg>"
            raise PyExc(AssertionError(msg) if msg is not None else AssertionError())

    def x_If(self, st, sc):
        if self.truth(self.ev(st.test, sc)):
            self.exec_block(st.body, sc)
        else:
            self.exec_block(st.orelse, sc)

    def x_Raise(self, st, sc):
        if st.exc is None:
            if not self.exc_stack:
                raise PyExc(RuntimeError("No active exception to reraise"))
            raise PyExc(self.exc_stack[-1])
        e = self.ev(st.exc, sc)
        if isinstance(e, type):
            e = self.instantiate(e, [], {})
        if not isinstance(e, BaseException):
            raise PyExc(TypeError("exceptions must derive from BaseException"))
        if st.cause is not None:
            c = self.ev(st.cause, sc)
            try:
                e.__cause__ = c
            except Exception:
                pass
        raise PyExc(e)

    def x_FunctionDef(self, st, sc):
        f = self.make_func(st, sc, st.name)
        for d in reversed(st.decorator_list):
            dec = self.ev(d, sc)
            f = self.call(dec, [f], {})
        self._store_name(st.name, f, sc)

    def make_func(self, node, sc, name):
        a = node.args
        defaults = [self.ev(d, sc) for d in a.defaults]
        kw_defaults = [self.ev(d, sc) if d is not None else _NODEFAULT for d in a.kw_defaults]
        return IFunc(node, sc, defaults, kw_defaults, name)

    def x_While(self, st, sc):
        r = self.models.loop_hook(self, st, sc)
        if r is not NotImplemented:
            return
        while self.truth(self.ev(st.test, sc)):
            try:
                self.exec_block(st.body, sc)
            except _Break:
                return
            except _Continue:
                continue
        self.exec_block(st.orelse, sc)

    def iterate(self, v):
        """python iteration protocol over interpreter values -> python iterator"""
        if isinstance(v, IGen):
            def g():
                while True:
                    try:
                        yield v.send(None)
                    except PyExc as x:
                        if isinstance(x.e, StopIteration):
                            return
                        raise
            return g()
        m = self.models.iterate(self, v)
        if m is not NotImplemented:
            return m
        if isinstance(v, Sym):
            raise Unsupported(f"iteration over symbolic {v!r}")
        cls = type(v)
        if self._is_repo_class(cls):
            it_f = self.class_lookup(cls, "__iter__")
            if it_f is not None and is_repo_function(it_f):
                return self.iterate(self.call(it_f, [v], {}))
        try:
            return iter(v)
        except Internal:
            raise
        except Exception as e:
            raise PyExc(e)

    def x_For(self, st, sc):
        r = self.models.loop_hook(self, st, sc)
        if r is not NotImplemented:
            return
        itr = self.iterate(self.ev(st.iter, sc))
        while True:
            try:
                x = next(itr)
            except StopIteration:
                break
            except Internal:
                raise
            except Exception as e:
                raise PyExc(e)
            self.assign(st.target, x, sc)
            try:
                self.exec_block(st.body, sc)
            except _Break:
                return
            except _Continue:
                continue
        self.exec_block(st.orelse, sc)

    def x_Try(self, st, sc):
        try:
            try:
                self.exec_block(st.body, sc)
            except PyExc as x:
                handled = False
                for h in st.handlers:
                    if h.type is None:
                        match = True
                    else:
                        t = self.ev(h.type, sc)
                        match = isinstance(x.e, t)
                    if match:
                        handled = True
                        if h.name:
                            sc.vars[h.name] = x.e
                        self.exc_stack.append(x.e)
                        try:
                            self.exec_block(h.body, sc)
                        finally:
                            self.exc_stack.pop()
                        break
                if not handled:
                    raise
            else:
                self.exec_block(st.orelse, sc)
        except BaseException as e:
            if isinstance(e, (_Kill, PathAbort, Unsupported, SymEscape)):
                raise
            if st.finalbody:
                self.exec_block(st.finalbody, sc)
            raise
        else:
            if st.finalbody:
                self.exec_block(st.finalbody, sc)

    def x_With(self, st, sc):
        self._with(st, 0, sc)

    def _with(self, st, i, sc):
        if i == len(st.items):
            self.exec_block(st.body, sc)
            return
        item = st.items[i]
        cm = self.ev(item.context_expr, sc)
        if isinstance(cm, ICtxMgr):
            g = cm.gen
            try:
                v = g.send(None)
            except PyExc as x:
                if isinstance(x.e, StopIteration):
                    raise PyExc(RuntimeError("generator didn't yield"))
                raise
            exit_fn = None
        else:
            enter = self.getattr(cm, "__enter__")
            exit_fn = self.getattr(cm, "__exit__")
            v = self.call(enter, [], {})
            g = None
        if item.optional_vars is not None:
            self.assign(item.optional_vars, v, sc)
        try:
            self._with(st, i + 1, sc)
        except PyExc as x:
            if g is not None:
                try:
                    g.throw(x)
                except PyExc as y:
                    if isinstance(y.e, StopIteration):
                        return         # generator swallowed the exception
                    raise
                raise PyExc(RuntimeError("generator didn't stop after throw()"))
            sup = self.call(exit_fn, [type(x.e), x.e, None], {})
            if self.truth(sup):
                return
            raise
        except (_Return, _Break, _Continue):
            self._with_exit(g, exit_fn)
            raise
        else:
            self._with_exit(g, exit_fn)

    def _with_exit(self, g, exit_fn):
        if g is not None:
            try:
                g.send(None)
            except PyExc as x:
                if isinstance(x.e, StopIteration):
                    return
                raise
            raise PyExc(RuntimeError("generator didn't stop"))
        self.call(exit_fn, [None, None, None], {})

    # ---------------------------------------------------------------- assignment
    def _store_name(self, name, v, sc):
        if sc.gnames and name in sc.gnames and name not in sc.vars:
            g = sc.fn_globals
            self.global_undo.append((g, name, name in g, g.get(name)))
            g[name] = v
            return
        s = sc
        while s is not None:
            if name in s.cells and name not in s.vars:
                s.cells[name].cell_contents = v
                return
            s = None
        sc.vars[name] = v

    def assign(self, t, v, sc):
        if isinstance(t, ast.Name):
            self._store_name(t.id, v, sc)
        elif isinstance(t, (ast.Tuple, ast.List)):
            vals = list(self.iterate(v))
            star = [i for i, e in enumerate(t.elts) if isinstance(e, ast.Starred)]
            if star:
                k = star[0]
                after = len(t.elts) - k - 1
                if len(vals) < len(t.elts) - 1:
                    raise PyExc(ValueError("not enough values to unpack"))
                for e, x in zip(t.elts[:k], vals[:k]):
                    self.assign(e, x, sc)
                self.assign(t.elts[k].value, vals[k:len(vals) - after], sc)
                for e, x in zip(t.elts[k + 1:], vals[len(vals) - after:]):
                    self.assign(e, x, sc)
                return
            if len(vals) != len(t.elts):
                raise PyExc(ValueError(f"{'too many' if len(vals) > len(t.elts) else 'not enough'} values to unpack (expected {len(t.elts)})"))
            for e, x in zip(t.elts, vals):
                self.assign(e, x, sc)
        elif isinstance(t, ast.Attribute):
            self.setattr(self.ev(t.value, sc), t.attr, v)
        elif isinstance(t, ast.Subscript):
            o = self.ev(t.value, sc)
            self.setitem(o, self.ev_slice(t.slice, sc), v)
        else:
            raise Unsupported(f"assignment target {type(t).__name__}")

    # ---------------------------------------------------------------- expressions
    def ev(self, e, sc):
        m = getattr(self, "e_" + type(e).__name__, None)
        if m is None:
            raise Unsupported(f"expression {type(e).__name__} at line {getattr(e, 'lineno', '?')}")
        return m(e, sc)

    def e_Constant(self, e, sc):
        return e.value

    def e_Name(self, e, sc):
        return sc.lookup(e.id)

    def e_Attribute(self, e, sc):
        return self.getattr(self.ev(e.value, sc), e.attr)

    def e_Tuple(self, e, sc):
        return tuple(self._elts(e.elts, sc))

    def e_List(self, e, sc):
        return self._elts(e.elts, sc)

    def e_Set(self, e, sc):
        return self.models.make_set(self, self._elts(e.elts, sc))

    def _elts(self, elts, sc):
        out = []
        for x in elts:
            if isinstance(x, ast.Starred):
                out.extend(self.iterate(self.ev(x.value, sc)))
            else:
                out.append(self.ev(x, sc))
        return out

    def e_Dict(self, e, sc):
        d = {}
        for k, v in zip(e.keys, e.values):
            if k is None:
                d.update(self.ev(v, sc))
            else:
                kk = self.ev(k, sc)
                vv = self.ev(v, sc)
                self.setitem(d, kk, vv)
        return d

    def e_Lambda(self, e, sc):
        return self.make_func(e, sc, "<lambda>")

    def e_IfExp(self, e, sc):
        return self.ev(e.body if self.truth(self.ev(e.test, sc)) else e.orelse, sc)

    def e_NamedExpr(self, e, sc):
        v = self.ev(e.value, sc)
        self.assign(e.target, v, sc)
        return v

    def e_JoinedStr(self, e, sc):
        parts = []
        for p in e.values:
            if isinstance(p, ast.Constant):
                parts.append(p.value)
            else:
                v = self.ev(p.value, sc)
                if p.conversion == 114:
                    v = self.call(repr, [v], {})
                elif p.conversion == 115 or p.conversion == -1:
                    pass
                spec = None
                if p.format_spec is not None:
                    spec = self.e_JoinedStr(p.format_spec, sc)
                parts.append(self.models.format_value(self, v, spec))
        return self.models.str_concat(self, parts)

    def e_Yield(self, e, sc):
        g = getattr(self.tl, "gen", None)
        if g is None:
            raise Unsupported("yield outside generator thread")
        v = self.ev(e.value, sc) if e.value is not None else None
        r = g.yield_(v)
        self.tl.gen = g
        return r

    def e_YieldFrom(self, e, sc):
        g = getattr(self.tl, "gen", None)
        if g is None:
            raise Unsupported("yield from outside generator thread")
        src = self.ev(e.value, sc)
        if isinstance(src, IGen):
            sent = None
            while True:
                try:
                    v = src.send(sent)
                except PyExc as x:
                    if isinstance(x.e, StopIteration):
                        self.tl.gen = g
                        return x.e.value
                    raise
                sent = g.yield_(v)
                self.tl.gen = g
        for v in self.iterate(src):
            g.yield_(v)
            self.tl.gen = g
        return None

    def e_Starred(self, e, sc):
        raise Unsupported("starred expression in this position")

    def e_Call(self, e, sc):
        # zero-argument super()
        if isinstance(e.func, ast.Name) and e.func.id == "super" and not e.args:
            s = sc
            while s is not None and s.klass is None:
                s = s.parent
            if s is None:
                raise Unsupported("super() without __class__ cell")
            return ISuper(s.klass, s.self0)
        fn = self.ev(e.func, sc)
        if _is_logger_call(fn) or fn is print:
            return None            # extraction drops logging (and its argument expressions)
        args = []
        for a in e.args:
            if isinstance(a, ast.Starred):
                args.extend(self.iterate(self.ev(a.value, sc)))
            else:
                args.append(self.ev(a, sc))
        kw = {}
        for k in e.keywords:
            if k.arg is None:
                kw.update(self.ev(k.value, sc))
            else:
                kw[k.arg] = self.ev(k.value, sc)
        return self.call(fn, args, kw)

    def e_BoolOp(self, e, sc):
        is_and = isinstance(e.op, ast.And)
        v = None
        for x in e.values:
            v = self.ev(x, sc)
            t = self.truth(v)
            if is_and and not t:
                return v
            if not is_and and t:
                return v
        return v

    def e_UnaryOp(self, e, sc):
        v = self.ev(e.operand, sc)
        if isinstance(e.op, ast.Not):
            if isinstance(v, SBool):
                return mk_bool(z3.Not(v.t))
            return not self.truth(v)
        if isinstance(e.op, ast.USub):
            if isinstance(v, SInt):
                return mk_int(-v.t)
            if isinstance(v, SReal):
                return SReal(-v.t)
            return self._nat(operator.neg, v)
        if isinstance(e.op, ast.UAdd):
            return v
        if isinstance(e.op, ast.Invert):
            if isinstance(v, SInt):
                return mk_int(-v.t - 1)
            return self._nat(operator.invert, v)
        raise Unsupported("unary op")

    def _nat(self, f, *a):
        try:
            return f(*a)
        except Internal:
            raise
        except TypeError as x:
            # a native operator applied to a symbolic value / symbolic container that CPython does not know is a limit of the engine's
            # models, not a TypeError of the program under verification
            if any(isinstance(v, (Sym, self.models.SymContainer)) or self.models.has_sym(v, 1) for v in a):
                raise Unsupported(f"native {getattr(f, '__name__', f)} on symbolic operand: {x}")
            raise PyExc(x)
        except Exception as x:
            raise PyExc(x)

    def e_BinOp(self, e, sc):
        return self.binop(e.op, self.ev(e.left, sc), self.ev(e.right, sc))

    def binop(self, op, a, b):
        r = self.models.binop(self, op, a, b)
        if r is not NotImplemented:
            return r
        return self._nat(_BIN[type(op)], a, b)

    def e_Compare(self, e, sc):
        left = self.ev(e.left, sc)
        result = True
        for op, c in zip(e.ops, e.comparators):
            right = self.ev(c, sc)
            r = self.compare(op, left, right)
            if len(e.ops) == 1:
                return r
            if not self.truth(r):
                return False
            left = right
        return result

    def compare(self, op, a, b):
        if isinstance(op, ast.Is):
            return self.models.identical(self, a, b)
        if isinstance(op, ast.IsNot):
            r = self.models.identical(self, a, b)
            return mk_bool(z3.Not(r.t)) if isinstance(r, SBool) else (not r)
        if isinstance(op, ast.In):
            return self.models.contains(self, b, a)
        if isinstance(op, ast.NotIn):
            r = self.models.contains(self, b, a)
            return mk_bool(z3.Not(r.t)) if isinstance(r, SBool) else (not r)
        if isinstance(op, ast.Eq):
            return self.models.equal(self, a, b)
        if isinstance(op, ast.NotEq):
            r = self.models.equal(self, a, b)
            return mk_bool(z3.Not(r.t)) if isinstance(r, SBool) else (not r)
        return self.models.order(self, op, a, b)

    def e_Subscript(self, e, sc):
        o = self.ev(e.value, sc)
        k = self.ev_slice(e.slice, sc)
        return self.getitem(o, k)

    def ev_slice(self, s, sc):
        if isinstance(s, ast.Slice):
            return slice(self.ev(s.lower, sc) if s.lower is not None else None,
                         self.ev(s.upper, sc) if s.upper is not None else None,
                         self.ev(s.step, sc) if s.step is not None else None)
        return self.ev(s, sc)

    def e_Slice(self, s, sc):
        return self.ev_slice(s, sc)

    def getitem(self, o, k):
        r = self.models.getitem(self, o, k)
        if r is not NotImplemented:
            return r
        cls = type(o)
        if self._is_repo_class(cls):
            gi = self.class_lookup(cls, "__getitem__")
            if gi is not None and is_repo_function(gi):
                return self.call(gi, [o, k], {})
        return self._nat(operator.getitem, o, k)

    def setitem(self, o, k, v):
        r = self.models.setitem(self, o, k, v)
        if r is not NotImplemented:
            return
        cls = type(o)
        if self._is_repo_class(cls):
            si = self.class_lookup(cls, "__setitem__")
            if si is not None and is_repo_function(si):
                self.call(si, [o, k, v], {})
                return
        self._nat(operator.setitem, o, k, v)

    def delitem(self, o, k):
        r = self.models.delitem(self, o, k)
        if r is not NotImplemented:
            return
        self._nat(operator.delitem, o, k)

    # comprehensions
    def _comp(self, gens, sc, emit):
        def rec(i, s):
            if i == len(gens):
                emit(s)
                return
            g = gens[i]
            src = self.ev(g.iter, s if i else sc)
            for x in self.iterate(src):
                self.assign(g.target, x, s)
                if all(self.truth(self.ev(c, s)) for c in g.ifs):
                    rec(i + 1, s)
        rec(0, Scope(sc))

    def e_ListComp(self, e, sc):
        r = self.models.comp_hook(self, e, sc)
        if r is not NotImplemented:
            return r
        out = []
        self._comp(e.generators, sc, lambda s: out.append(self.ev(e.elt, s)))
        return out

    def e_GeneratorExp(self, e, sc):
        # evaluated eagerly (side-effect free element expressions in this code base)
        if self.comp_contracts:
            r = self.models.comp_hook(self, e, sc, contracts_only=True)
            if r is not NotImplemented:
                return r
        out = []
        self._comp(e.generators, sc, lambda s: out.append(self.ev(e.elt, s)))
        return out

    def e_SetComp(self, e, sc):
        out = []
        self._comp(e.generators, sc, lambda s: out.append(self.ev(e.elt, s)))
        return self.models.make_set(self, out)

    def e_DictComp(self, e, sc):
        d = {}

        def emit(s):
            k = self.ev(e.key, s)
            v = self.ev(e.value, s)
            self.setitem(d, k, v)
        self._comp(e.generators, sc, emit)
        return d


_NODEFAULT = object()


_ORD_CACHE = {}


def node_ordinal(fn_node, node, kinds):
    """ordinal (source order, nested defs excluded) of ``node`` among the nodes of the given kinds in fn_node"""
    key = (id(fn_node), kinds)
    if key not in _ORD_CACHE:
        out = []

        def walk(n):
            for c in ast.iter_child_nodes(n):
                if isinstance(c, (ast.FunctionDef, ast.Lambda, ast.ClassDef, ast.AsyncFunctionDef)):
                    continue
                if isinstance(c, kinds):
                    out.append(c)
                walk(c)
        walk(fn_node)
        _ORD_CACHE[key] = (out, fn_node)
    lst = _ORD_CACHE[key][0]
    for i, n in enumerate(lst):
        if n is node:
            return i
    return None


# ------------------------------------------------------------------ exploration driver
def run_in_big_thread(f):
    box = {}

    def target():
        try:
            box["r"] = f()
        except BaseException as e:
            box["e"] = e
    t = threading.Thread(target=target)
    t.start()
    t.join()
    if "e" in box:
        raise box["e"]
    return box.get("r")


def explore(body, assume=(), stubs=None, max_paths=20000, make=None):
    """Run ``body(it)`` over all feasible decision sequences.
    Yields (it, outcome) with outcome = ('ret', value) | ('exc', exception_instance).
    Internal errors (Unsupported/SymEscape) propagate."""
    stack = [[]]
    n = 0
    while stack:
        dec = stack.pop()
        it = make(dec) if make else Interp(decisions=dec, assume=assume, stubs=stubs)
        n += 1
        if n > max_paths:
            raise Unsupported(f"more than {max_paths} paths")
        aborted = False
        try:
            try:
                out = ("ret", body(it))
            except PyExc as x:
                out = ("exc", x.e)
            except PathAbort:
                aborted = True
                out = None
        finally:
            it.cleanup()
        for i in range(len(dec), len(it.decisions)):
            stack.append(it.decisions[:i] + [False])
        if not aborted:
            yield it, out
