"""pyvc.harness -- obligations, contexts (symbolic / native), runner, verdicts, evidence.

An *obligation* is one Python function ``f(ctx)`` written once and run two ways:

* symbolically (``SymCtx``): inputs are fresh symbolic values, ``ctx.call`` interprets the
  real code from its AST, every ``ctx.check(label, cond)`` becomes a validity query
  (path-condition => cond) discharged by z3 (cvc5 as second opinion on ``unknown``);
  the body is re-run once per feasible path (decision replay);
* natively (``NatCtx``): inputs are concrete (from a counter-model, or drawn from a
  boundary-biased seeded sampler), ``ctx.call`` calls the real function under CPython
  and ``ctx.check`` evaluates the same condition concretely.  This is the replay of
  counterexamples against the real code, the CPython cross-check of the engine, and the
  labelled *bounded* stand-in when the symbolic route is undecided.

Verdicts: proved / refuted (model replayed natively -> VIOLATION with input) /
refuted-no-input / undecided / crash.  Exit codes: 0 / 1 / 2 / 3.
"""
from __future__ import annotations

import fnmatch
import json
import multiprocessing as mp
import os
import random
import subprocess
import sys
import tempfile
import time
import traceback

import z3

from . import interp as I
from . import models as M
from .values import (SymBytes, Internal, SBool, SEnum, SInt, SReal, Sym, SymEscape, Unsupported, has_sym,
                     lift, lift_int, mk_bool, mk_int)

VERIF_ROOT = os.path.dirname(os.path.dirname(os.path.abspath(__file__)))
# evidence and replay files go to /verif unless VERIF_OUT redirects them (used when checks are run against a scratch copy with a seeded change)
OUT_ROOT = os.environ.get("VERIF_OUT") or VERIF_ROOT
CHECK_TIMEOUT_MS = int(os.environ.get("VERIF_SOLVER_TIMEOUT_MS", "60000"))


class Raised(Exception):
    """the (real or interpreted) call raised a Python exception"""

    def __init__(self, e):
        self.e = e


class CheckFailed(Exception):
    pass


class Skip(Exception):
    """native context: sampled input outside the obligation's precondition"""


# ------------------------------------------------------------------ registry
class Obligation:
    def __init__(self, name, fn, kind="lia", expect="proved", samples=40, fuc=(), note="", bounded_only=False,
                 max_paths=20000, stubs=None, timeout_ms=None, inductive=False, preset=None, thorough_only=False):
        self.preset = dict(preset or {})      # fixed outcomes of ctx.choice(name, ...) (splits a big case analysis over obligations)
        self.thorough_only = thorough_only
        self.inductive = inductive    # obligation over a havoc'd (invariant-only) state: counter-models need not be reachable
        self.name = name
        self.fn = fn
        self.kind = kind
        self.expect = expect          # "proved" | "refuted" (canary)
        self.samples = samples
        self.fuc = list(fuc)
        self.note = note
        self.bounded_only = bounded_only
        self.max_paths = max_paths
        self.stubs = stubs
        self.timeout_ms = timeout_ms


class Registry:
    def __init__(self, prop):
        self.prop = prop
        self.obls = []
        self.assumptions = []
        self.trusted = []
        self.dropped = []
        self.explanation = ""

    def add(self, name, kind="lia", **kw):
        def deco(fn):
            self.obls.append(Obligation(f"{self.prop}/{name}", fn, kind, **kw))
            return fn
        return deco

    def canary(self, name, kind="lia", **kw):
        kw["expect"] = "refuted"
        return self.add("canary/" + name, kind, **kw)


# ------------------------------------------------------------------ contexts
_SYMS = (Sym, M.SymContainer, SymBytes)
class _CtxBase:
    symbolic = False

    # logical helpers usable in both modes
    def and_(self, *xs):
        ts = []
        for x in xs:
            if x is False:
                return False
            if x is True:
                continue
            ts.append(x)
        if not ts:
            return True
        if all(isinstance(t, bool) for t in ts):
            return all(ts)
        return mk_bool(z3.And([lift(t) for t in ts]))

    def or_(self, *xs):
        ts = []
        for x in xs:
            if x is True:
                return True
            if x is False:
                continue
            ts.append(x)
        if not ts:
            return False
        return mk_bool(z3.Or([lift(t) for t in ts]))

    def not_(self, x):
        if isinstance(x, bool):
            return not x
        return mk_bool(z3.Not(x.t))

    def implies(self, a, b):
        return self.or_(self.not_(a), b)


import ast as _ast

_OPS = {"add": _ast.Add(), "sub": _ast.Sub(), "mul": _ast.Mult(), "floordiv": _ast.FloorDiv(), "mod": _ast.Mod(), "pow": _ast.Pow()}
_CMP = {"lt": _ast.Lt(), "le": _ast.LtE(), "gt": _ast.Gt(), "ge": _ast.GtE()}


class SymCtx(_CtxBase):
    symbolic = True

    # arithmetic / order on possibly symbolic scalars (contract expressions)
    def add(self, a, b): return M.binop(self.it, _OPS["add"], a, b) if (isinstance(a, _SYMS) or isinstance(b, _SYMS)) else a + b
    def sub(self, a, b): return M.binop(self.it, _OPS["sub"], a, b) if (isinstance(a, _SYMS) or isinstance(b, _SYMS)) else a - b
    def mul(self, a, b): return M.binop(self.it, _OPS["mul"], a, b) if (isinstance(a, _SYMS) or isinstance(b, _SYMS)) else a * b
    def floordiv(self, a, b): return M.binop(self.it, _OPS["floordiv"], a, b) if (isinstance(a, _SYMS) or isinstance(b, _SYMS)) else a // b
    def mod(self, a, b): return M.binop(self.it, _OPS["mod"], a, b) if (isinstance(a, _SYMS) or isinstance(b, _SYMS)) else a % b
    def lt(self, a, b): return M.order(self.it, _CMP["lt"], a, b)
    def le(self, a, b): return M.order(self.it, _CMP["le"], a, b)
    def gt(self, a, b): return M.order(self.it, _CMP["gt"], a, b)
    def ge(self, a, b): return M.order(self.it, _CMP["ge"], a, b)

    def __init__(self, it, rec, preset=None):
        self.it = it
        self.rec = rec            # shared record across paths
        self.preset = preset or {}
        self.inputs = {}          # name -> z3 term
        self.path_checks = 0
        self.prefs = []           # soft constraints used only when extracting counter-models

    # ---- inputs
    def int(self, name, lo=None, hi=None):
        v = self.it.fresh_int(name, lo, hi)
        self.inputs[name] = ("int", v.t)
        return v

    def bool(self, name):
        t = z3.Bool(name)
        self.inputs[name] = ("bool", t)
        return SBool(t)

    def real(self, name, lo=None, hi=None):
        t = z3.Real(name)
        if lo is not None:
            self.it.pc.append(t >= lo)
        if hi is not None:
            self.it.pc.append(t <= hi)
        self.inputs[name] = ("real", t)
        return SReal(t)

    def enum(self, name, cls):
        vals = [m.value for m in cls]
        t = z3.Int(name)
        self.it.pc.append(z3.Or([t == v for v in vals]))
        self.inputs[name] = ("enum:" + cls.__name__, t)
        return SEnum(cls, t)

    def choice(self, name, options):
        """concrete choice among python objects: forks"""
        if name in self.preset:
            return options[self.preset[name]]
        t = z3.Int(name)
        self.it.pc.append(z3.And(t >= 0, t < len(options)))
        self.inputs[name] = ("int", t)
        for i, o in enumerate(options[:-1]):
            if self.it.decide(t == i):
                return o
        return options[-1]

    def optint(self, name, lo=None, hi=None):
        n = z3.Bool(name + "!none")
        v = z3.Int(name)
        if lo is not None:
            self.it.pc.append(v >= lo)
        if hi is not None:
            self.it.pc.append(v <= hi)
        self.inputs[name + "!none"] = ("bool", n)
        self.inputs[name] = ("int", v)
        return M.OptInt(n, v)

    # ---- running code
    def call(self, fn, *args, **kw):
        try:
            return self.it.call(fn, list(args), kw)
        except I.PyExc as x:
            raise Raised(x.e)

    def attempt(self, fn, *args, **kw):
        try:
            return ("ret", self.call(fn, *args, **kw))
        except Raised as r:
            return ("exc", r.e)

    def getattr(self, o, name):
        try:
            return self.it.getattr(o, name)
        except I.PyExc as x:
            raise Raised(x.e)

    def eq(self, a, b):
        return M.equal(self.it, a, b)

    def len(self, o):
        return M._len(self.it, o)

    def is_none(self, v):
        if isinstance(v, M.OptInt):
            return mk_bool(v.isnone)
        return v is None

    def setattr(self, o, name, v):
        try:
            self.it.setattr(o, name, v)
        except I.PyExc as x:
            raise Raised(x.e)

    def index(self, o, k):
        try:
            return self.it.getitem(o, k)
        except I.PyExc as x:
            raise Raised(x.e)

    def truth(self, c):
        return self.it.truth(c)

    def assume(self, c):
        if c is True:
            return
        if c is False:
            raise I.PathAbort()
        self.it.add_assumption(c)
        if not self.it.feasible():
            raise I.PathAbort()

    def cover(self, label):
        self.rec["covers"][label] = self.rec["covers"].get(label, 0) + 1

    def prefer(self, cond):
        """soft constraint: only used to pick a small, natively replayable counter-model"""
        if isinstance(cond, Sym):
            self.prefs.append(cond.t)

    def note(self, key, val):
        self.rec["notes"].setdefault(key, val)

    # ---- proving
    def check(self, label, cond):
        self.path_checks += 1
        rec = self.rec["checks"].setdefault(label, {"paths": 0, "proved": 0, "refuted": [], "undecided": [], "time": 0.0})
        rec["paths"] += 1
        t0 = time.time()
        if cond is True:
            rec["proved"] += 1
            return
        s = self.it.solver()
        s.set("timeout", self.rec.get("timeout_ms") or CHECK_TIMEOUT_MS)
        neg = z3.BoolVal(True) if cond is False else z3.Not(lift(cond))
        r = s.check(neg)
        if r == z3.unknown:
            r = second_opinion(self.it, neg)
        rec["time"] += time.time() - t0
        if r == z3.unsat:
            rec["proved"] += 1
            return
        if r == z3.sat:
            r2 = z3.unknown
            if self.prefs:
                r2 = s.check(neg, *self.prefs)       # prefer a small counter-model (replayable natively)
            if r2 != z3.sat:
                r2 = s.check(neg)
            inputs = {}
            alts = []
            if r2 == z3.sat:
                m = s.model()
                for k, (ty, t) in self.inputs.items():
                    v = m.eval(t, model_completion=True)
                    inputs[k] = _model_value(ty, v)
                # a few more counter-models (differing in some named input): the native state built from a model fills everything the
                # model leaves open with defaults, and one model may therefore fail to reproduce where another one does
                if len(rec["refuted"]) < 3 and self.inputs:
                    try:
                        s.push()
                        s.add(neg)
                        cur = m
                        for _ in range(3):
                            diff = [t != cur.eval(t, model_completion=True) for k, (ty, t) in self.inputs.items() if ty != "real"]
                            if not diff:
                                break
                            s.add(z3.Or(*diff))
                            if s.check() != z3.sat:
                                break
                            cur = s.model()
                            alts.append({k: _model_value(ty, cur.eval(t, model_completion=True)) for k, (ty, t) in self.inputs.items()})
                    finally:
                        s.pop()
            rec["refuted"].append({"inputs": inputs, "have_model": r2 == z3.sat, "alt_inputs": alts})
            return
        rec["undecided"].append(str(s.reason_unknown()))


def _model_value(ty, v):
    if ty == "bool":
        return bool(z3.is_true(v))
    if ty == "real":
        if z3.is_rational_value(v):
            return v.numerator_as_long() / v.denominator_as_long()
        try:
            return float(v.approx(20).as_decimal(20).rstrip("?"))
        except Exception:
            return float("nan")
    return v.as_long()


def second_opinion(it, neg):
    """re-ask an ``unknown`` query: cvc5 (if available), then z3 with another seed"""
    try:
        s = z3.Solver()
        for a in it.assume:
            s.add(a)
        for a in it.pc:
            s.add(a)
        s.add(neg)
        smt = "(set-logic ALL)\n" + s.to_smt2()
        with tempfile.NamedTemporaryFile("w", suffix=".smt2", delete=False, dir=os.environ.get("VERIF_SCRATCH", None)) as fh:
            fh.write(smt)
            path = fh.name
        try:
            out = subprocess.run(["/usr/bin/cvc5", "--tlimit=60000", path], capture_output=True, text=True, timeout=90)
            ans = out.stdout.strip().splitlines()[0] if out.stdout.strip() else ""
        finally:
            os.unlink(path)
        if ans == "unsat":
            return z3.unsat
        if ans == "sat":
            return z3.sat
    except Exception:
        pass
    try:
        s2 = z3.Solver()
        s2.set("timeout", CHECK_TIMEOUT_MS)
        s2.set("random_seed", 7)
        for a in list(it.assume) + list(it.pc):
            s2.add(a)
        s2.add(neg)
        return s2.check()
    except Exception:
        return z3.unknown


class NatCtx(_CtxBase):
    """native context: real functions under CPython, concrete inputs"""

    def add(self, a, b): return a + b
    def sub(self, a, b): return a - b
    def mul(self, a, b): return a * b
    def floordiv(self, a, b): return a // b
    def mod(self, a, b): return a % b
    def lt(self, a, b): return a < b
    def le(self, a, b): return a <= b
    def gt(self, a, b): return a > b
    def ge(self, a, b): return a >= b

    def __init__(self, inputs=None, rng=None, preset=None):
        self.given = inputs
        self.rng = rng
        self.preset = preset or {}
        self.used = {}
        self.failed = []          # labels of failed checks
        self.nchecks = 0

    @property
    def tier(self):
        return TIER

    def _draw_int(self, lo, hi):
        r = self.rng
        if lo is None and hi is None:
            c = [0, 1, -1, 255, 256, 2 ** 31 - 1, 2 ** 31, -2 ** 31, -2 ** 31 - 1, 65535, 65536, 2 ** 32, 16, 15]
            return r.choice(c) if r.random() < 0.6 else r.randint(-2 ** 40, 2 ** 40)
        if lo is None:
            lo = hi - 2 ** 33
        if hi is None:
            hi = lo + 2 ** 33
        c = [lo, hi, min(hi, lo + 1), max(lo, hi - 1)]
        for z in (0, 1, -1, 127, 128, 255, 256):
            if lo <= z <= hi:
                c.append(z)
        k = r.random()
        if k < 0.45:
            return r.choice(c)
        if k < 0.6:       # walking one
            b = 1 << r.randrange(0, max(1, (hi - lo).bit_length()))
            v = lo + b if lo >= 0 else b
            return v if lo <= v <= hi else r.randint(lo, hi)
        return r.randint(lo, hi)

    def int(self, name, lo=None, hi=None):
        if self.given is not None:
            v = self.given.get(name)
            if v is None:
                v = lo if lo is not None else (hi if hi is not None else 0)
        else:
            v = self._draw_int(lo, hi)
        self.used[name] = v
        return v

    def bool(self, name):
        v = bool(self.given.get(name, False)) if self.given is not None else self.rng.random() < 0.5
        self.used[name] = v
        return v

    def real(self, name, lo=None, hi=None):
        if self.given is not None:
            v = float(self.given.get(name, lo if lo is not None else 0.0))
        else:
            a = lo if lo is not None else -100.0
            b = hi if hi is not None else 100.0
            v = self.rng.choice([a, b, (a + b) / 2, self.rng.uniform(a, b), self.rng.uniform(a, b)])
        self.used[name] = v
        return v

    def enum(self, name, cls):
        members = list(cls)
        if self.given is not None:
            val = self.given.get(name, members[0].value)
            v = cls(val)
        else:
            v = self.rng.choice(members)
        self.used[name] = v.value
        return v

    def choice(self, name, options):
        if name in self.preset:
            return options[self.preset[name]]
        if self.given is not None:
            i = int(self.given.get(name, 0))
        else:
            i = self.rng.randrange(len(options))
        self.used[name] = i
        return options[i]

    def optint(self, name, lo=None, hi=None):
        if self.given is not None:
            isnone = bool(self.given.get(name + "!none", False))
            v = self.given.get(name)
            if v is None:
                v = lo if lo is not None else 0
        else:
            isnone = self.rng.random() < 0.3
            v = self._draw_int(lo, hi)
        self.used[name + "!none"] = isnone
        self.used[name] = v
        return None if isnone else v

    def call(self, fn, *args, **kw):
        try:
            return fn(*args, **kw)
        except Exception as e:
            raise Raised(e)

    def attempt(self, fn, *args, **kw):
        try:
            return ("ret", self.call(fn, *args, **kw))
        except Raised as r:
            return ("exc", r.e)

    def getattr(self, o, name):
        try:
            return getattr(o, name)
        except Exception as e:
            raise Raised(e)

    def eq(self, a, b):
        return nat_equal(a, b)

    def len(self, o):
        return len(o)

    def is_none(self, v):
        return v is None

    def setattr(self, o, name, v):
        try:
            setattr(o, name, v)
        except Exception as e:
            raise Raised(e)

    def index(self, o, k):
        try:
            return o[k]
        except Exception as e:
            raise Raised(e)

    def truth(self, c):
        return bool(c)

    def assume(self, c):
        if not c:
            raise Skip()

    def cover(self, label):
        pass

    def prefer(self, cond):
        pass

    def note(self, key, val):
        pass

    def check(self, label, cond):
        self.nchecks += 1
        if not bool(cond):
            self.failed.append(label)


def nat_equal(a, b):
    return a == b


# ------------------------------------------------------------------ running one obligation
def _run_symbolic(ob, rec):
    def body(it):
        ctx = SymCtx(it, rec, ob.preset)
        try:
            ob.fn(ctx)
        except Raised as r:
            # an exception escaping the obligation body = unexpected exceptional exit
            ctx.check("no-unexpected-exception:" + type(r.e).__name__, False)
        if ctx.path_checks == 0:
            rec["paths_without_check"] += 1
        return None
    n = 0
    for it, out in I.explore(body, stubs=ob.stubs, max_paths=ob.max_paths):
        n += 1
        if it.notes.get("unknown_decisions"):
            rec["unknown_decisions"] += it.notes["unknown_decisions"]
    rec["paths"] = n


def _run_native_once(ob, inputs=None, rng=None):
    ctx = NatCtx(inputs, rng, ob.preset)
    try:
        ob.fn(ctx)
    except Skip:
        return None
    except Raised as r:
        ctx.failed.append("no-unexpected-exception:" + type(r.e).__name__)
    return ctx


TIER = "quick"


def run_obligation(ob, seed, tier):
    """returns a JSON-able result dict"""
    global TIER
    TIER = tier
    t0 = time.time()
    res = {"name": ob.name, "kind": ob.kind, "expect": ob.expect, "labels": {}, "paths": 0, "verdict": None,
           "crash": None, "native_samples": 0, "native_failures": [], "wall_s": 0.0, "note": ob.note,
           "solver_s": 0.0}
    rec = {"checks": {}, "covers": {}, "notes": {}, "paths_without_check": 0, "unknown_decisions": 0, "paths": 0,
           "timeout_ms": ob.timeout_ms}
    sym_ok = False
    if not ob.bounded_only:
        try:
            I.run_in_big_thread(lambda: _run_symbolic(ob, rec))
            sym_ok = True
        except (Unsupported, SymEscape) as e:
            res["crash"] = f"undecided: {type(e).__name__}: {e}"
            res["trace"] = traceback.format_exc()[-1500:]
        except RecursionError as e:
            res["crash"] = "undecided: RecursionError in interpreted code or engine"
        except BaseException as e:
            res["crash"] = f"crash: {type(e).__name__}: {e}"
            res["trace"] = traceback.format_exc()[-3000:]
    res["paths"] = rec["paths"]
    res["notes"] = {k: str(v) for k, v in rec["notes"].items()}
    # native replay of counter-models
    for label, c in rec["checks"].items():
        out = {"paths": c["paths"], "proved": c["proved"], "refuted": len(c["refuted"]), "undecided": len(c["undecided"]),
               "solver_s": round(c["time"], 4), "replayed": []}
        res["solver_s"] += c["time"]
        for r in c["refuted"][:5]:
            for cand in [r["inputs"]] + list(r.get("alt_inputs", [])):
                rep = {"inputs": cand, "reproduced": False}
                try:
                    ctx = _run_native_once(ob, inputs=cand)
                    if ctx is not None and (label in ctx.failed or any(f.startswith(label + "[") for f in ctx.failed)):
                        rep["reproduced"] = True      # natively a comparison may be reported per component: label[component]
                    elif ctx is not None and ctx.failed:
                        rep["other_failed"] = ctx.failed[:3]
                except BaseException as e:
                    rep["replay_error"] = f"{type(e).__name__}: {e}"
                out["replayed"].append(rep)
                if rep["reproduced"]:
                    break
        if c["undecided"]:
            out["reason_unknown"] = c["undecided"][:2]
        res["labels"][label] = out
    # native sampling: CPython cross-check / bounded stand-in
    nsamp = ob.samples * (10 if tier == "thorough" and ob.kind != "bounded" else 1)
    rng = random.Random((seed * 1000003) ^ hash(ob.name) & 0xFFFFFFF)
    rng = random.Random(f"{seed}:{ob.name}")
    nat_fail = {}
    done = 0
    for _ in range(nsamp):
        try:
            ctx = _run_native_once(ob, rng=rng)
        except BaseException as e:
            res["native_failures"].append({"label": "native-crash", "error": f"{type(e).__name__}: {e}"})
            break
        if ctx is None:
            continue
        done += 1
        for l in ctx.failed:
            if l not in nat_fail:
                nat_fail[l] = dict(ctx.used)
    res["native_samples"] = done
    for l, inp in nat_fail.items():
        res["native_failures"].append({"label": l, "inputs": inp})
    # verdict
    res["verdict"] = _verdict(ob, res, rec, sym_ok)
    res["wall_s"] = round(time.time() - t0, 3)
    res["solver_s"] = round(res["solver_s"], 3)
    res["fuc"] = {q: f"{f}:{a}-{b} sha1={sha}" for q, (f, a, b, sha) in I.SOURCES.used.items()}
    return res


def _verdict(ob, res, rec, sym_ok):
    labels = res["labels"]
    nat_failed = {f["label"] for f in res["native_failures"]}
    if "native-crash" in nat_failed:
        return "crash"
    violated = []       # (label, inputs or None, how)
    undecided = False
    for l, c in labels.items():
        if c["refuted"]:
            rep = [r for r in c["replayed"] if r["reproduced"]]
            if rep:
                violated.append((l, rep[0]["inputs"], "model-replayed"))
            elif l in nat_failed:
                inp = next(f["inputs"] for f in res["native_failures"] if f["label"] == l)
                violated.append((l, inp, "bounded-native-search"))
            else:
                violated.append((l, None, "refuted-not-reproduced"))
        elif c["undecided"]:
            undecided = True
    for f in res["native_failures"]:
        l = f["label"]
        if l in [v[0] for v in violated]:
            continue
        clean = all(c["proved"] == c["paths"] for c in labels.values())
        if sym_ok and clean and l in labels:
            # every symbolic path ended in proved checks, yet the REAL code fails this one on a concrete input: the failing input is
            # a genuine counterexample (reported as such); it also shows that the symbolic model is imprecise for this code (e.g. state
            # shared between calls through a library object the model treats as fresh) -- noted, so that the proof is not trusted here
            res["engine_note"] = f"{l}: proved symbolically but the real code fails natively: symbolic model imprecise for this code"
            violated.append((l, f["inputs"], "native-counterexample (contradicts the symbolic result: model imprecise here)"))
            continue
        violated.append((l, f["inputs"], "bounded-native-search"))
    res["violated"] = [{"label": l, "inputs": i, "how": h} for l, i, h in violated]
    if ob.expect == "refuted":
        if violated:
            return "canary-ok"
        return "canary-dead"
    real = [v for v in violated if v[2] != "refuted-not-reproduced"]
    if real:
        if not ob.inductive:
            # counter-models that do not reproduce on the real code are not violations (they are undecided); only the reproduced ones are reported
            dropped = [v[0] for v in violated if v[2] == "refuted-not-reproduced"]
            if dropped:
                res["not_reproduced"] = dropped
            res["violated"] = [{"label": l, "inputs": i, "how": h} for l, i, h in real]
        return "refuted"
    if violated:
        # solver says sat but the counter-model does not reproduce on the real code and the bounded native search
        # found nothing: for an inductive obligation (invariant not preserved from a havoc'd state) this is reported as
        # a violation without failing input; for a loop-free obligation it means the encoding is imprecise -> undecided
        if ob.inductive:
            return "refuted-no-input"
        res["crash"] = "undecided: counter-model not reproducible on the real code (encoding imprecise here): " + \
            ", ".join(v[0] for v in violated)
        return "undecided"
    if res["crash"]:
        return "undecided" if res["crash"].startswith("undecided") else "crash"
    if undecided:
        return "undecided"
    if not ob.bounded_only:
        if not labels or res["paths"] == 0:
            res["crash"] = "vacuous: no check reached"
            return "crash"
        return "proved"
    return "bounded-ok"


# ------------------------------------------------------------------ property runner
_REG = None


def _worker(i_seed_tier):
    i, seed, tier = i_seed_tier
    ob = _REG.obls[i]
    try:
        return run_obligation(ob, seed, tier)
    except BaseException as e:
        return {"name": ob.name, "kind": ob.kind, "expect": ob.expect, "labels": {}, "paths": 0, "verdict": "crash",
                "crash": f"{type(e).__name__}: {e}", "trace": traceback.format_exc()[-3000:], "native_samples": 0,
                "native_failures": [], "wall_s": 0.0, "solver_s": 0.0, "note": ob.note}


def load_known_findings():
    p = os.path.join(VERIF_ROOT, "known_findings.json")
    if not os.path.exists(p):
        return []
    with open(p) as fh:
        return json.load(fh).get("findings", [])


def _match_known(kf, prop, ob_name, label, inputs):
    for k in kf:
        if k.get("property") != prop or not str(k.get("status", "")).startswith("open"):
            continue
        if not fnmatch.fnmatchcase(ob_name, k.get("obligation", "*")):
            continue
        if "label" in k and not fnmatch.fnmatchcase(label, k["label"]):
            continue
        w = k.get("when")
        if w:
            try:
                if not eval(w, {"__builtins__": {"abs": abs, "len": len, "min": min, "max": max}}, {"inp": inputs or {}}):
                    continue
            except Exception:
                continue
        return k
    return None


def run_property(reg, tier="quick", seed=0, jobs=None, only=None, level="proof", technique="", design_ref=""):
    """run all obligations of a property; write evidence; print verdict lines; return exit code"""
    global _REG
    _REG = reg
    t0 = time.time()
    prop = reg.prop
    idx = [i for i, o in enumerate(reg.obls) if (only is None or fnmatch.fnmatchcase(o.name, only))
           and (tier == "thorough" or not o.thorough_only or only is not None)]
    skipped_thorough = [o.name for o in reg.obls if o.thorough_only and tier != "thorough"]
    reg.skipped_thorough = skipped_thorough
    if not idx:
        print(f"CRASH property={prop}: zero obligations generated")
        return 3
    jobs = jobs or int(os.environ.get("VERIF_JOBS", "16"))
    tasks = [(i, seed, tier) for i in idx]
    if jobs > 1 and len(tasks) > 1:
        ctx = mp.get_context("fork")
        # no obligation of any check needs more than a few minutes; if NO result arrives for this long, something (usually
        # code under test that no longer terminates) hangs: the missing obligations become 'undecided' instead of blocking the check
        limit = float(os.environ.get("VERIF_STALL_S", "1200" if tier == "quick" else "5400"))
        pool = ctx.Pool(min(jobs, len(tasks)))
        results = []
        try:
            itr = pool.imap_unordered(_worker, tasks, chunksize=1)
            for _ in range(len(tasks)):
                try:
                    r = itr.next(timeout=limit)
                except mp.TimeoutError:
                    done = {r["name"] for r in results}
                    for (i, _s, _t) in tasks:
                        ob = reg.obls[i]
                        if ob.name not in done:
                            results.append({"name": ob.name, "kind": ob.kind, "expect": ob.expect, "labels": {}, "paths": 0, "verdict": "undecided",
                                            "crash": f"undecided: no result within {limit:.0f} s (the code under execution does not terminate, or the machine is overloaded)",
                                            "native_samples": 0, "native_failures": [], "wall_s": limit, "note": ob.note, "solver_s": 0.0})
                    break
                if os.environ.get("VERIF_PROGRESS"):
                    print(f"  .. {r['verdict']:<18} {r['wall_s']:>8}s paths={r['paths']:<6} {r['name']}", flush=True)
                results.append(r)
        finally:
            pool.terminate()
            pool.join()
        order = {reg.obls[i].name: n for n, (i, _, _) in enumerate(tasks)}
        results.sort(key=lambda r: order.get(r["name"], 0))
    else:
        results = [_worker(t) for t in tasks]
    kf = load_known_findings()
    violations, known, undecided, crashes = [], [], [], []
    n_obl = n_dis = 0
    n_bounded = []
    for r in results:
        v = r["verdict"]
        if r["expect"] == "refuted":
            if v != "canary-ok":
                crashes.append((r["name"], f"canary not refuted ({v}): engine or contract vacuous; {r.get('crash')}"))
            continue
        nl = max(1, len(r["labels"]))
        if v == "bounded-ok":
            n_bounded.append(r["name"])
            continue
        n_obl += nl
        if v == "proved":
            n_dis += nl
        elif v in ("refuted", "refuted-no-input"):
            for viol in r.get("violated", []):
                k = _match_known(kf, prop, r["name"], viol["label"], viol["inputs"])
                if k is not None:
                    known.append((r["name"], viol, k))
                else:
                    violations.append((r["name"], viol, r))
            bad = {viol["label"] for viol in r.get("violated", [])}
            n_dis += sum(1 for l, c in r["labels"].items() if c["proved"] == c["paths"] and l not in bad)
            # obligations that are listed known findings are reported separately, not counted as proof obligations
            n_obl -= sum(1 for viol in r.get("violated", []) if _match_known(kf, prop, r["name"], viol["label"], viol["inputs"]) is not None)
        elif v == "undecided":
            undecided.append((r["name"], r.get("crash") or "solver unknown"))
            n_dis += sum(1 for l, c in r["labels"].items() if c["proved"] == c["paths"])
        else:
            crashes.append((r["name"], r.get("crash")))
    # replay files + output lines
    code = 0
    os.makedirs(os.path.join(OUT_ROOT, "replay", prop), exist_ok=True)
    for name, viol, k in known:
        print(f"KNOWN-FINDING: property={prop} {k.get('what', name)} [{name} :: {viol['label']}]")
    seen = set()
    for name, viol, r in violations:
        key = (name, viol["label"])
        if key in seen:
            continue
        seen.add(key)
        fn = os.path.join(OUT_ROOT, "replay", prop, _safe(name) + "__" + _safe(viol["label"]) + ".json")
        with open(fn, "w") as fh:
            json.dump({"property": prop, "obligation": name, "label": viol["label"], "inputs": viol["inputs"],
                       "how": viol["how"], "module": reg.module, "verifier_output": r["labels"].get(viol["label"]),
                       "note": r.get("note", ""),
                       "replay_cmd": f"bin/check {prop} --replay {os.path.relpath(fn, VERIF_ROOT)}"}, fh, indent=1, default=str)
        tail = "" if viol["inputs"] is not None and viol["how"] != "refuted-not-reproduced" else " no-failing-input-found"
        print(f"VIOLATION property={prop} replay={fn}{tail}")
        print(f"  obligation {name} :: {viol['label']} ({viol['how']}) inputs={viol['inputs']}")
        code = 1
    if os.environ.get("VERIF_DEBUG"):
        for r in results:
            if r.get("trace"):
                print("TRACE", r["name"], r["trace"])
    for name, why in undecided:
        print(f"UNDECIDED property={prop} obligation={name}: {why}")
    for name, why in crashes:
        print(f"CRASH property={prop} obligation={name}: {why}")
    if code == 0:
        if crashes:
            code = 3
        elif undecided:
            code = 2
    wall = time.time() - t0
    write_evidence(reg, results, tier, seed, level, n_obl, n_dis, n_bounded, known, violations, undecided, crashes, wall, technique)
    print(f"[{prop}] tier={tier} obligations={n_obl} discharged={n_dis} bounded={len(n_bounded)} "
          f"known_findings={len(known)} violations={len(seen)} undecided={len(undecided)} crashes={len(crashes)} "
          f"wall={wall:.1f}s exit={code}")
    return code


def _safe(s):
    return "".join(ch if ch.isalnum() or ch in "-_." else "_" for ch in s)[:120]


def write_evidence(reg, results, tier, seed, level, n_obl, n_dis, bounded, known, violations, undecided, crashes, wall, technique):
    fuc = {}
    for q, (f, a, b, sha) in sorted(I.SOURCES.used.items()):
        fuc[q] = f"{f}:{a}-{b} sha1={sha}"
    # functions interpreted are collected in the workers; merge what they reported
    for r in results:
        for q, d in (r.get("fuc") or {}).items():
            fuc[q] = d
    samples = []
    for r in results[:400]:
        if r["labels"] and len(samples) < 6:
            l, c = next(iter(r["labels"].items()))
            samples.append({"obligation": r["name"], "label": l, "kind": r["kind"], "paths": r["paths"],
                            "verdict": r["verdict"], "solver_s": r["solver_s"]})
    by_kind = {}
    for r in results:
        by_kind[r["kind"]] = by_kind.get(r["kind"], 0) + 1
    cov = {
        "obligations": n_obl,
        "discharged": n_dis,
        "checker_cmd": f"bin/check {reg.prop} --tier {tier}",
        "trusted_base": reg.trusted,
        "explanation": reg.explanation,
        "backend": "z3 %s (python API), /usr/bin/cvc5 on unknown" % z3.get_version_string(),
        "obligation_kinds": by_kind,
        "paths": sum(r["paths"] for r in results),
        "solver_s": round(sum(r["solver_s"] for r in results), 3),
        "canaries_refuted": sum(1 for r in results if r["verdict"] == "canary-ok"),
        "native_cross_check_runs": sum(r["native_samples"] for r in results),
        "bounded": [{"obligation": b, "bound": next((o.note for o in reg.obls if o.name == b), "")} for b in bounded],
        "functions_under_contract": fuc,
        "extraction_drops": reg.dropped,
        "samples": samples,
        "evaluations": sum(r["paths"] for r in results) + sum(r["native_samples"] for r in results),
        "distinct_nontrivial": n_obl,
        "rule": "one obligation = one (function-or-lemma, clause) validity query over all inputs; distinct by name",
        "known_findings": [f"{n} :: {v['label']}" for n, v, k in known],
        "obligations_only_in_thorough_tier": getattr(reg, "skipped_thorough", []),
        "undecided": [f"{n}: {w}" for n, w in undecided],
        "crashes": [f"{n}: {w}" for n, w in crashes],
        "per_obligation": [{"name": r["name"], "verdict": r["verdict"], "kind": r["kind"], "paths": r["paths"],
                            "labels": len(r["labels"]), "solver_s": r["solver_s"], "wall_s": r["wall_s"]} for r in results],
    }
    ev = {"property_id": reg.prop, "tier": tier, "seed": seed, "level": level, "coverage": cov,
          "assumptions": reg.assumptions, "wall_s": round(wall, 2), "violations": len(violations),
          "technique": technique}
    os.makedirs(os.path.join(OUT_ROOT, "evidence"), exist_ok=True)
    with open(os.path.join(OUT_ROOT, "evidence", f"{reg.prop}.json"), "w") as fh:
        json.dump(ev, fh, indent=1, default=str)


def replay_file(reg, path):
    with open(path) as fh:
        d = json.load(fh)
    ob = next((o for o in reg.obls if o.name == d["obligation"]), None)
    if ob is None:
        print(f"no such obligation {d['obligation']}")
        return 3
    if d["inputs"] is None:
        print(f"replay: obligation {d['obligation']} :: {d['label']} failed without a concrete input; verifier output:")
        print(json.dumps(d.get("verifier_output"), indent=1))
        return 1
    ctx = _run_native_once(ob, inputs=d["inputs"])
    if ctx is None:
        print("replay: inputs outside precondition")
        return 0
    if d["label"] in ctx.failed:
        print(f"replay: REPRODUCED on the real code: {d['obligation']} :: {d['label']} inputs={d['inputs']}")
        print(f"VIOLATION property={d['property']} replay={path}")
        return 1
    print(f"replay: not reproduced (failed labels: {ctx.failed})")
    return 0
