"""pyvc.models -- library models: the behaviour of builtins / ctypes / dataclasses / enum on
symbolic values.  Everything here is an *assumed contract on a dependency* (listed in
the evidence as trusted base, cross-checked against CPython by ``pyvc.selfcheck``).

Functions return ``NotImplemented`` when the model does not apply (caller falls back to
native execution, which refuses symbolic arguments).
"""
from __future__ import annotations

import ast
import ctypes
import dataclasses
import enum
import types

import z3

from .values import (Internal, SBool, SEnum, SInt, SReal, Sym, SymBytes, SymBytesFn, SymCArray, SymContainer, SymStructArray,
                     SymEscape, SymStruct, Unsupported, has_sym, lift, lift_int, lift_real,
                     mk_bool, mk_int)


def _PyExc(e):
    from .interp import PyExc
    return PyExc(e)


# ---------------------------------------------------------------- symbolic containers
class SymMap(SymContainer):
    """dict with integer keys modelled as a z3 array  key -> slot, where slot is an Int
    and a parallel Bool array says whether the key is present.  Values are either
    Optional ints ("optint": a presence bit + int) or opaque.  Used for register files,
    unit modules, array tables.  Iteration is not supported (=> Unsupported)."""

    def __init__(self, name, dom=None, present=None, isnone=None, val=None):
        self.name = name
        self.dom = dom                       # python predicate on key term -> z3 Bool (well-formed keys), or None
        self.present = present if present is not None else z3.Array(f"{name}!p", z3.IntSort(), z3.BoolSort())
        self.isnone = isnone if isnone is not None else z3.Array(f"{name}!n", z3.IntSort(), z3.BoolSort())
        self.val = val if val is not None else z3.Array(f"{name}!v", z3.IntSort(), z3.IntSort())

    def snapshot(self):
        return (self.present, self.isnone, self.val)

    def __repr__(self):
        return f"SymMap({self.name})"


class SymMapView(SymMap):
    """window onto a base SymMap: key k of the view is key offset + k of the base (shared storage)"""

    def __init__(self, base, offset):
        self.base = base
        self.offset = offset
        self.name = base.name + "@view"
        self.dom = None

    present = property(lambda self: self.base.present, lambda self, v: setattr(self.base, "present", v))
    isnone = property(lambda self: self.base.isnone, lambda self, v: setattr(self.base, "isnone", v))
    val = property(lambda self: self.base.val, lambda self, v: setattr(self.base, "val", v))


class OptInt(SymContainer):
    """symbolic Optional[int]: ``isnone`` Bool term, ``val`` Int term"""

    def __init__(self, isnone, val):
        self.isnone = isnone
        self.val = val

    def __repr__(self):
        return f"OptInt({self.isnone},{self.val})"


class SymList(SymContainer):
    """list of symbolic length whose elements are Optional ints:
    length term + arrays (isnone, val) indexed 0..len-1.  Mutable (stores rebind)."""

    def __init__(self, name, length=None, isnone=None, val=None):
        self.name = name
        self.length = length if length is not None else z3.Int(f"{name}!len")
        self.isnone = isnone if isnone is not None else z3.Array(f"{name}!n", z3.IntSort(), z3.BoolSort())
        self.val = val if val is not None else z3.Array(f"{name}!v", z3.IntSort(), z3.IntSort())

    def snapshot(self):
        return (self.length, self.isnone, self.val)

    def __repr__(self):
        return f"SymList({self.name})"


class SymKeyDict(SymContainer):
    """dict whose keys are (possibly symbolic) ints and whose values are arbitrary objects (e.g. SymList):
    a finite list of entries with pairwise distinct keys; a lookup forks over which entry matches.
    Abstraction of 'a table with arbitrarily many arrays' by the entries an operation can distinguish."""

    def __init__(self, name, entries=None, default_factory=None):
        self.name = name
        self.entries = list(entries or [])      # [(key (int|SInt|tuple of those), value)]
        self.default_factory = default_factory  # collections.defaultdict semantics when not None

    def copy_shallow(self):
        return SymKeyDict(self.name + "'", list(self.entries), self.default_factory)

    def find(self, it, k):
        k = _fold_opt(it, k)
        if isinstance(k, tuple):
            k = tuple(_fold_opt(it, x) for x in k)
            if not all(isinstance(x, (int, SInt)) and not isinstance(x, bool) for x in k):
                raise Unsupported(f"SymKeyDict key {k!r}")
        elif k is None or not isinstance(k, (int, SInt)) or isinstance(k, bool):
            raise Unsupported(f"SymKeyDict key {k!r}")
        for j, (kk, v) in enumerate(self.entries):
            if it.truth(equal(it, k, kk)):
                return j
        return None

    def __repr__(self):
        return f"SymKeyDict({self.name},{len(self.entries)} entries)"


class SymIntSet(SymContainer):
    """set of ints as a z3 array Int -> Bool (mutable: add/remove rebind).  With ``keyfn`` the elements are
    other values (e.g. registers) identified by an integer key term."""

    def __init__(self, name, arr=None, keyfn=None):
        self.name = name
        self.arr = arr if arr is not None else z3.Array(f"{name}!s", z3.IntSort(), z3.BoolSort())
        self.keyfn = keyfn

    def key(self, it, x):
        x = _fold_opt(it, x)
        if self.keyfn is not None:
            return self.keyfn(x)
        if x is None or not isinstance(x, (int, SInt)) or isinstance(x, bool):
            return None
        return lift_int(x)

    def snapshot(self):
        return self.arr

    def __repr__(self):
        return f"SymIntSet({self.name})"


# ---------------------------------------------------------------- truthiness
def truth(it, v):
    if type(v) not in (bool, int, str, list, tuple, dict, type(None)) and not isinstance(v, (Sym, SymContainer)) and it._is_repo_class(type(v)):
        from .interp import is_repo_function
        f = it.class_lookup(type(v), "__bool__")
        if f is not None and is_repo_function(f):
            return it.truth(it.call(f, [v], {}))
        f = it.class_lookup(type(v), "__len__")
        if f is not None and is_repo_function(f):
            return it.truth(order(it, ast.Gt(), it.call(f, [v], {}), 0))
    if isinstance(v, OptInt):
        return it.decide(z3.And(z3.Not(v.isnone), v.val != 0))
    if isinstance(v, SymList):
        return it.decide(v.length > 0)
    return None


# ---------------------------------------------------------------- equality / identity / order
def _fold_opt(it, v):
    """OptInt -> None | SInt | int on this path (forks on definedness)"""
    if isinstance(v, OptInt):
        if it.decide(v.isnone):
            return None
        return mk_int(v.val)
    return v


def equal(it, a, b):
    a = _fold_opt(it, a)
    b = _fold_opt(it, b)
    from . import segstr as _ss
    if isinstance(a, SegStr) or isinstance(b, SegStr):
        if isinstance(a, (str, SegStr)) and isinstance(b, (str, SegStr)):
            return _ss.equal(it, a, b)
        return False
    if isinstance(a, _ss.DigitChar) or isinstance(b, _ss.DigitChar):
        o = b if isinstance(a, _ss.DigitChar) else a
        if isinstance(o, str) and (len(o) != 1 or o not in _ss.DIGITS):
            return False
        raise Unsupported("comparison with an unknown digit")
    if isinstance(a, SEnum) or isinstance(b, SEnum):
        if isinstance(a, SEnum) and isinstance(b, SEnum):
            if a.cls is not b.cls:
                return False
            return mk_bool(a.t == b.t)
        s, o = (a, b) if isinstance(a, SEnum) else (b, a)
        if isinstance(o, s.cls):
            return mk_bool(s.t == lift(o.value))
        return False
    if isinstance(a, Sym) or isinstance(b, Sym):
        if a is None or b is None:
            return False
        if isinstance(a, (str, bytes, enum.Enum)) or isinstance(b, (str, bytes, enum.Enum)):
            return False
        if not isinstance(a, (Sym, int, float, bool)) or not isinstance(b, (Sym, int, float, bool)):
            return False
        if isinstance(a, SReal) or isinstance(b, SReal) or isinstance(a, float) or isinstance(b, float):
            return mk_bool(lift_real(a) == lift_real(b))
        if isinstance(a, SBool) and isinstance(b, SBool):
            return mk_bool(a.t == b.t)
        return mk_bool(lift_int(a) == lift_int(b))
    if isinstance(a, SymBytes) or isinstance(b, SymBytes):
        if isinstance(a, bytes):
            a = SymBytes(list(a))
        if isinstance(b, bytes):
            b = SymBytes(list(b))
        if not (isinstance(a, SymBytes) and isinstance(b, SymBytes)):
            return False
        if len(a) != len(b):
            return False
        return mk_bool(z3.And([lift_int(x) == lift_int(y) for x, y in zip(a.bs, b.bs)] or [z3.BoolVal(True)]))
    if isinstance(a, SymStruct) or isinstance(b, SymStruct):
        return a is b
    if not has_sym(a) and not has_sym(b):
        try:
            return a == b
        except Internal:
            raise
        except Exception as e:
            raise _PyExc(e)
    # structural
    if isinstance(a, (list, tuple)) and isinstance(b, (list, tuple)):
        if type(a) is not type(b) and not (isinstance(a, tuple) and isinstance(b, tuple)):
            return False
        if len(a) != len(b):
            return False
        return _conj(it, [equal(it, x, y) for x, y in zip(a, b)])
    if isinstance(a, dict) and isinstance(b, dict):
        if set(a.keys()) != set(b.keys()):
            return False
        return _conj(it, [equal(it, a[k], b[k]) for k in a])
    if dataclasses.is_dataclass(a) and dataclasses.is_dataclass(b) and not isinstance(a, type):
        ca, cb = type(a), type(b)
        eqf = it.class_lookup(ca, "__eq__")
        from .interp import is_repo_function
        if is_repo_function(eqf):
            return it.call(eqf, [a, b], {})
        if ca is not cb:
            return False
        return _conj(it, [equal(it, getattr(a, f.name), getattr(b, f.name))
                          for f in dataclasses.fields(a) if f.compare])
    if type(a) is not type(b):
        return False
    from .interp import is_repo_function
    eqf = it.class_lookup(type(a), "__eq__")
    if is_repo_function(eqf):
        return it.call(eqf, [a, b], {})
    if eqf is object.__eq__:
        return a is b
    raise Unsupported(f"equality of {type(a).__name__} with symbolic content")


def _conj(it, parts):
    ts = []
    for p in parts:
        if p is False:
            return False
        if p is True:
            continue
        if isinstance(p, SBool):
            ts.append(p.t)
        else:
            raise Unsupported(f"conj of {p!r}")
    if not ts:
        return True
    return mk_bool(z3.And(ts))


def _disj(it, parts):
    ts = []
    for p in parts:
        if p is True:
            return True
        if p is False:
            continue
        if isinstance(p, SBool):
            ts.append(p.t)
        else:
            raise Unsupported(f"disj of {p!r}")
    if not ts:
        return False
    return mk_bool(z3.Or(ts))


def identical(it, a, b):
    if isinstance(a, OptInt) or isinstance(b, OptInt):
        o, x = (a, b) if isinstance(a, OptInt) else (b, a)
        if x is None:
            return mk_bool(o.isnone)
        raise Unsupported("identity test on OptInt against non-None")
    if isinstance(a, SEnum) or isinstance(b, SEnum):
        return equal(it, a, b)
    if (isinstance(a, Sym) and b is None) or (isinstance(b, Sym) and a is None):
        return False
    if isinstance(a, SBool) or isinstance(b, SBool):
        if isinstance(a, (SBool, bool)) and isinstance(b, (SBool, bool)):
            return mk_bool(lift(a) == lift(b))
        return False
    return a is b


_ORD = {ast.Lt: lambda x, y: x < y, ast.LtE: lambda x, y: x <= y, ast.Gt: lambda x, y: x > y, ast.GtE: lambda x, y: x >= y}


def order(it, op, a, b):
    a = _fold_opt(it, a)
    b = _fold_opt(it, b)
    from . import segstr as _ss
    if isinstance(a, _ss.SegCharSet):
        if isinstance(op, ast.LtE):
            return _ss.charset_le(it, a, b)
        if isinstance(op, ast.Lt):
            return _ss.charset_le(it, a, b, strict=True)
        raise Unsupported("ordering of character sets")
    f = _ORD[type(op)]
    if isinstance(a, Sym) or isinstance(b, Sym):
        if a is None or b is None:
            raise _PyExc(TypeError(f"'{type(op).__name__}' not supported between NoneType and int"))
        if isinstance(a, (SReal, float)) or isinstance(b, (SReal, float)):
            return mk_bool(f(lift_real(a), lift_real(b)))
        if isinstance(a, (SInt, SBool, int)) and isinstance(b, (SInt, SBool, int)):
            return mk_bool(f(lift_int(a), lift_int(b)))
        raise Unsupported(f"ordering of {a!r} and {b!r}")
    if has_sym(a, 1) or has_sym(b, 1):
        raise Unsupported("ordering of containers with symbolic content")
    try:
        return f(a, b)
    except Internal:
        raise
    except Exception as e:
        raise _PyExc(e)


def contains(it, c, x):
    if isinstance(c, SymMap):
        return mk_bool(z3.Select(c.present, _key(it, c, x)))
    if isinstance(c, dict):
        if not has_sym(x) and not any(has_sym(k) for k in c):
            try:
                return x in c
            except Internal:
                raise
            except Exception as e:
                raise _PyExc(e)
        return _disj(it, [equal(it, x, k) for k in c])
    if isinstance(c, (list, tuple, set, frozenset)):
        if not has_sym(x) and not has_sym(c, 3):
            try:
                return x in c
            except Internal:
                raise
            except Exception as e:
                raise _PyExc(e)
        return _disj(it, [equal(it, x, k) for k in c])
    if isinstance(c, SymSet):
        return c.contains(it, x)
    if isinstance(c, SymIntSet):
        k = c.key(it, x)
        if k is None:
            return False
        return mk_bool(z3.Select(c.arr, k))
    if isinstance(c, SymKeyDict):
        return c.find(it, x) is not None
    if isinstance(c, SegStr):
        return c.contains(it, x)
    from . import segstr as _ss
    if isinstance(x, _ss.DigitChar):
        if isinstance(c, (str, list, tuple, set, frozenset)):
            cs = set(c)
            if set(_ss.DIGITS) <= cs:
                return True
            if not (set(_ss.DIGITS) & cs):
                return False
        raise Unsupported("membership of an unknown digit")
    if isinstance(x, SegStr):
        if isinstance(c, (list, tuple)):
            return _disj(it, [equal(it, x, k) for k in c])
        if isinstance(c, (dict, set, frozenset)):
            return _disj(it, [equal(it, x, k) for k in c])
        if isinstance(c, str):
            raise Unsupported("segment string as a needle")
    if has_sym(x):
        raise Unsupported(f"'in' with symbolic element on {type(c).__name__}")
    cls = type(c)
    if it._is_repo_class(cls):
        from .interp import is_repo_function
        cf = it.class_lookup(cls, "__contains__")
        if cf is not None and is_repo_function(cf):
            return it.call(cf, [c, x], {})
    try:
        return x in c
    except Internal:
        raise
    except Exception as e:
        raise _PyExc(e)


# ---------------------------------------------------------------- sets of hashable repo values (symbolic membership)
class SymSet(SymContainer):
    """set over a finite concrete universe with symbolic membership bits.
    ``bits``: dict element -> z3 Bool term (mutable: add/remove rebind)."""

    def __init__(self, name, universe, bits=None):
        self.name = name
        self.universe = list(universe)
        self.bits = bits if bits is not None else {u: z3.Bool(f"{name}!{i}") for i, u in enumerate(self.universe)}

    def snapshot(self):
        return dict(self.bits)

    def contains(self, it, x):
        if has_sym(x):
            return _disj(it, [_conj(it, [equal(it, x, u), mk_bool(b)]) for u, b in self.bits.items()])
        if x not in self.bits:
            return False
        return mk_bool(self.bits[x])

    def __repr__(self):
        return f"SymSet({self.name})"


def make_set(it, elts):
    if any(has_sym(x) for x in elts):
        raise Unsupported("set display with symbolic elements")
    try:
        return set(elts)
    except Exception as e:
        raise _PyExc(e)


# ---------------------------------------------------------------- arithmetic
def binop(it, op, a, b):
    a = _fold_opt(it, a)
    b = _fold_opt(it, b)
    if isinstance(a, SegStr) or isinstance(b, SegStr):
        if isinstance(op, ast.Add):
            return str_concat(it, [a, b])
        if isinstance(op, ast.Mod):
            raise Unsupported("% formatting on SegStr")
    if isinstance(a, (SymBytes, bytes, bytearray)) and isinstance(b, (SymBytes, bytes, bytearray)) and (isinstance(a, SymBytes) or isinstance(b, SymBytes)):
        if isinstance(op, ast.Add):
            # (a bytearray that receives symbolic bytes is continued as an immutable symbolic byte string: sound as long as the
            #  bytearray object is not aliased, which is the case for local accumulators)
            la = a.bs if isinstance(a, SymBytes) else list(a)
            lb = b.bs if isinstance(b, SymBytes) else list(b)
            return SymBytes(la + lb)
    if isinstance(a, SymList) or isinstance(b, SymList):
        raise Unsupported("arithmetic on SymList")
    if isinstance(a, list) and isinstance(b, SInt) and isinstance(op, ast.Mult):
        return list_repeat(it, a, b)
    if isinstance(b, list) and isinstance(a, SInt) and isinstance(op, ast.Mult):
        return list_repeat(it, b, a)
    if not (isinstance(a, Sym) or isinstance(b, Sym)):
        return NotImplemented
    if a is None or b is None:
        raise _PyExc(TypeError(f"unsupported operand type(s) for {type(op).__name__}: NoneType"))
    if isinstance(a, (SReal, float)) or isinstance(b, (SReal, float)) or isinstance(op, ast.Div):
        return real_binop(it, op, a, b)
    if not isinstance(a, (SInt, SBool, int)) or not isinstance(b, (SInt, SBool, int)):
        raise _PyExc(TypeError(f"unsupported operand type(s) for {type(op).__name__}: '{type(a).__name__}' and '{type(b).__name__}'"))
    A, B = lift_int(a), lift_int(b)
    if isinstance(op, ast.Add):
        return mk_int(A + B)
    if isinstance(op, ast.Sub):
        return mk_int(A - B)
    if isinstance(op, ast.Mult):
        return mk_int(A * B)
    if isinstance(op, (ast.FloorDiv, ast.Mod)):
        # python floor semantics; z3 div/mod agree for positive divisors
        if isinstance(b, int):
            if b == 0:
                raise _PyExc(ZeroDivisionError("integer division or modulo by zero"))
            if b > 0:
                return mk_int(A / B) if isinstance(op, ast.FloorDiv) else mk_int(A % B)
            # negative constant divisor: a // b == (-a) // (-b);  a % b == -((-a) % (-b))
            return mk_int((-A) / (-B)) if isinstance(op, ast.FloorDiv) else mk_int(-((-A) % (-B)))
        if it.decide(B == 0):
            raise _PyExc(ZeroDivisionError("integer division or modulo by zero"))
        if it.decide(B > 0):
            return mk_int(A / B) if isinstance(op, ast.FloorDiv) else mk_int(A % B)
        return mk_int((-A) / (-B)) if isinstance(op, ast.FloorDiv) else mk_int(-((-A) % (-B)))
    if isinstance(op, ast.Pow):
        if isinstance(a, int) and a == 2 and getattr(it, "pow_uf", False):
            # exponent provably small: exact case split; otherwise 2**e as an uninterpreted function
            if it.solver().check(z3.Or(B < 0, B > 16)) != z3.unsat:
                return pow2(it, b)
        if isinstance(a, int) and isinstance(b, SInt):
            # small non-negative exponent: case split (forks), exact
            for k in range(0, 65):
                if it.decide(B == k):
                    return a ** k
            raise Unsupported("integer power with exponent outside 0..64")
        if isinstance(b, int) and b >= 0:
            r = z3.IntVal(1)
            for _ in range(b):
                r = r * A
            return mk_int(r)
        raise Unsupported("symbolic power")
    if isinstance(op, ast.LShift) and isinstance(b, int):
        return mk_int(A * (1 << b))
    if isinstance(op, ast.RShift) and isinstance(b, int):
        return mk_int(A / (1 << b))
    if isinstance(op, ast.BitAnd) and isinstance(b, int) and b >= 0 and (b & (b + 1)) == 0:
        return mk_int(A % (b + 1))
    if isinstance(op, ast.BitAnd) and isinstance(a, int) and a >= 0 and (a & (a + 1)) == 0:
        return mk_int(B % (a + 1))
    if isinstance(op, ast.BitXor) and ((isinstance(b, int) and b == 1) or (isinstance(a, int) and a == 1)):
        X = A if isinstance(b, int) else B
        return mk_int(X + 1 - 2 * (X % 2))          # x ^ 1 flips the lowest bit (exact for all python ints)
    raise Unsupported(f"binary op {type(op).__name__} on symbolic ints")


POW2 = z3.Function("pow2", z3.IntSort(), z3.RealSort())


def pow2(it, e):
    """2**e for a symbolic integer e: uninterpreted function plus instantiated defining facts (C19)."""
    t = lift_int(e)
    pow2_facts(it, t)
    return SReal(POW2(t))


def real_binop(it, op, a, b):
    A, B = lift_real(a), lift_real(b)
    if isinstance(op, ast.Add):
        return SReal(A + B)
    if isinstance(op, ast.Sub):
        return SReal(A - B)
    if isinstance(op, ast.Mult):
        return SReal(A * B)
    if isinstance(op, ast.Div):
        if isinstance(b, (int, float)):
            if b == 0:
                raise _PyExc(ZeroDivisionError("division by zero"))
        elif it.decide(B == 0):
            raise _PyExc(ZeroDivisionError("division by zero"))
        if isinstance(a, (SInt, int)) and isinstance(b, (SInt, int)) and not isinstance(a, bool):
            return SRatio(lift_int(a), lift_int(b))
        return SReal(A / B)
    if isinstance(op, ast.Mod):
        return real_mod(it, a, b)
    if isinstance(op, ast.Pow):
        if isinstance(a, (int, float)) and a == 2:
            if isinstance(b, (SInt, int)):
                return pow2(it, b)
        raise Unsupported("real power")
    if isinstance(op, ast.FloorDiv):
        raise Unsupported("real floordiv")
    raise Unsupported(f"real op {type(op).__name__}")


class SIntegral(SReal):
    """real value known to be the integer term ``k`` (result of floor)"""
    __slots__ = ("k",)

    def __init__(self, k):
        self.k = k
        self.t = z3.ToReal(k)


class SLog2(SReal):
    """log2 of a positive real term ``arg`` (only ever consumed by floor)"""
    __slots__ = ("arg",)

    def __init__(self, arg):
        self.arg = arg
        self.t = z3.Real("log2!opaque")


def pow2_facts(it, d):
    """instances of the defining facts of 2**d for the integer term d (pow2 is an uninterpreted function):
    exact values on -2..41, positivity, doubling, monotonic bounds outside the table"""
    key = d.sexpr() if hasattr(d, "sexpr") else str(d)
    seen = it.notes.setdefault("pow2_terms", set())
    if key in seen:
        return
    seen.add(key)
    P = POW2
    fs = [P(d) > 0, P(d + 1) == 2 * P(d)]
    for k in range(-2, 42):
        fs.append(z3.Implies(d == k, P(d) == z3.RealVal(2) ** k if k >= 0 else P(d) == z3.Q(1, 2 ** (-k))))
    fs.append(z3.Implies(d >= 42, P(d) >= z3.RealVal(2 ** 42)))
    fs.append(z3.Implies(d <= -3, P(d) <= z3.Q(1, 8)))
    for f in fs:
        it.pc.append(f)


def np_log2(it, x):
    x = _fold_opt(it, x)
    if isinstance(x, (int, float)):
        import math
        try:
            return math.log2(x)
        except ValueError as e:
            raise _PyExc(e)
    X = lift_real(x)
    if not it.decide(X > 0):
        raise Unsupported("log2 of non-positive")
    return SLog2(X)


def np_floor(it, v):
    v = _fold_opt(it, v)
    if isinstance(v, (int, float)):
        import math
        return float(math.floor(v))
    it.fresh_ctr += 1
    k = z3.Int(f"floor!{it.fresh_ctr}")
    if isinstance(v, SLog2):
        # floor(log2(x)) = k  <=>  2**k <= x < 2**(k+1)
        pow2_facts(it, k)
        pow2_facts(it, k + 1)
        it.pc.append(z3.And(POW2(k) <= v.arg, v.arg < POW2(k + 1)))
        return SIntegral(k)
    V = lift_real(v)
    it.pc.append(z3.And(z3.ToReal(k) <= V, V < z3.ToReal(k) + 1))
    return SIntegral(k)


def np_round(it, v, *a):
    """round half to even (numpy / python 3): integer k with |v - k| <= 1/2 (ties to even)"""
    v = _fold_opt(it, v)
    if isinstance(v, (int, float)):
        return float(round(v))
    it.fresh_ctr += 1
    k = z3.Int(f"round!{it.fresh_ctr}")
    V = lift_real(v)
    K = z3.ToReal(k)
    it.pc.append(z3.And(K - V <= z3.Q(1, 2), V - K <= z3.Q(1, 2),
                        z3.Implies(z3.Or(K - V == z3.Q(1, 2), V - K == z3.Q(1, 2)), k % 2 == 0)))
    return SIntegral(k)


def real_fmod(it, a, b):
    """C fmod: r = a - trunc(a/b)*b, same sign as a, |r| < |b|   (b > 0 assumed and checked)"""
    A, B = lift_real(_fold_opt(it, a)), lift_real(_fold_opt(it, b))
    if not it.decide(B > 0):
        raise Unsupported("fmod by non-positive")
    it.fresh_ctr += 1
    k = z3.Int(f"fmodk!{it.fresh_ctr}")
    r = z3.Real(f"fmodr!{it.fresh_ctr}")
    it.add_assumption(z3.And(A == z3.ToReal(k) * B + r,
                             z3.Implies(A >= 0, z3.And(r >= 0, r < B)), z3.Implies(A < 0, z3.And(r <= 0, r > -B))))
    return SReal(r)


class SRatio(SReal):
    """exact quotient of two integer terms (result of ``int / int``); ``int(q)`` truncates"""
    __slots__ = ("num", "den")

    def __init__(self, num, den):
        self.num = num
        self.den = den
        self.t = z3.ToReal(num) / z3.ToReal(den)


def real_mod(it, a, b):
    """x % m for real x and positive real m:  r with 0 <= r < m and x = k*m + r (k integer).
    (mathematical: IEEE rounding not modelled -- stated assumption)"""
    A, B = lift_real(a), lift_real(b)
    it.fresh_ctr += 1
    k = z3.Int(f"modk!{it.fresh_ctr}")
    r = z3.Real(f"modr!{it.fresh_ctr}")
    if not it.decide(B > 0):
        raise Unsupported("real modulo by non-positive")
    it.add_assumption(z3.And(A == z3.ToReal(k) * B + r, r >= 0, r < B))
    it.notes.setdefault("real_mod_calls", []).append((A, B, r))
    return SReal(r)


# ---------------------------------------------------------------- symbolic-length lists
def list_repeat(it, lst, n):
    if len(lst) == 1 and lst[0] is None:
        it.fresh_ctr += 1
        if it.decide(n.t < 0):
            return []
        return SymList(f"rep{it.fresh_ctr}", length=n.t,
                       isnone=z3.K(z3.IntSort(), z3.BoolVal(True)), val=z3.K(z3.IntSort(), z3.IntVal(0)))
    raise Unsupported("list * symbolic int")


def list_iadd(it, cur, val):
    if isinstance(val, (list, tuple)):
        cur.extend(val)
        return cur
    if isinstance(val, Sym):
        raise Unsupported("list += sym")
    vals = list(it.iterate(val))
    cur.extend(vals)
    return cur


# ---------------------------------------------------------------- subscripts
def _key(it, m, k):
    k = _fold_opt(it, k)
    if isinstance(k, SEnum):
        t = k.t
    elif isinstance(k, enum.Enum):
        t = z3.IntVal(k.value)
    elif isinstance(k, (SInt, int)) and not isinstance(k, bool):
        t = lift_int(k)
    else:
        raise Unsupported(f"SymMap key {k!r}")
    off = getattr(m, "offset", None)
    return t if off is None else off + t


def getitem(it, o, k):
    if isinstance(o, OptInt):
        o = _fold_opt(it, o)
    if isinstance(o, SymMap):
        kt = _key(it, o, k)
        if not it.decide(z3.Select(o.present, kt)):
            raise _PyExc(KeyError(_conc_or_str(k)))
        return OptInt(z3.Select(o.isnone, kt), z3.Select(o.val, kt))
    if isinstance(o, SymKeyDict):
        j = o.find(it, k)
        if j is None:
            if o.default_factory is not None:
                v = it.call(o.default_factory, [], {})
                o.entries.append((k if not isinstance(k, OptInt) else _fold_opt(it, k), v))
                return v
            raise _PyExc(KeyError(_conc_or_str(k)))
        return o.entries[j][1]
    if isinstance(o, SymFamily) and callable(o.elem):
        k = _fold_opt(it, k)
        if isinstance(k, slice):
            raise Unsupported("slice of SymFamily")
        kt = lift_int(k)
        if it.decide(z3.And(kt >= 0, kt < o.n)):
            return o.elem(kt)
        if it.decide(z3.And(kt < 0, kt >= -o.n)):
            return o.elem(kt + o.n)
        raise _PyExc(IndexError("list index out of range"))
    if isinstance(o, SymList):
        if isinstance(k, slice):
            return symlist_slice(it, o, k)
        k = _fold_opt(it, k)
        if k is None:
            raise _PyExc(TypeError("list indices must be integers or slices, not NoneType"))
        kt = lift_int(k)
        if it.decide(z3.And(kt >= 0, kt < o.length)):
            return OptInt(z3.Select(o.isnone, kt), z3.Select(o.val, kt))
        if it.decide(z3.And(kt < 0, kt >= -o.length)):
            kk = kt + o.length
            return OptInt(z3.Select(o.isnone, kk), z3.Select(o.val, kk))
        raise _PyExc(IndexError("list index out of range"))
    if isinstance(o, SymBytes):
        if isinstance(k, slice):
            if any(isinstance(x, Sym) for x in (k.start, k.stop, k.step)):
                raise Unsupported("symbolic slice of SymBytes")
            return SymBytes(o.bs[k])
        if isinstance(k, Sym):
            raise Unsupported("symbolic index into SymBytes")
        try:
            return o.bs[k]
        except IndexError as e:
            raise _PyExc(e)
    if isinstance(o, SymBytesFn):
        return bytesfn_getitem(it, o, k)
    if isinstance(o, SymCArray):
        try:
            return o.vals[k]
        except Exception as e:
            raise _PyExc(e)
    if isinstance(o, SegStr):
        return o.getitem(it, k)
    if isinstance(o, (list, tuple)) and isinstance(k, (SInt, OptInt)):
        k = _fold_opt(it, k)
        if k is None:
            raise _PyExc(TypeError("list indices must be integers or slices, not NoneType"))
        if isinstance(k, int):
            try:
                return o[k]
            except IndexError as e:
                raise _PyExc(e)
        n = len(o)
        for i in range(n):
            if it.decide(k.t == i):
                return o[i]
        for i in range(1, n + 1):
            if it.decide(k.t == -i):
                return o[-i]
        raise _PyExc(IndexError("list index out of range"))
    if isinstance(o, (list, tuple)) and isinstance(k, slice) and any(isinstance(x, Sym) for x in (k.start, k.stop, k.step)):
        raise Unsupported("symbolic slice of concrete list")
    if isinstance(o, dict) and (has_sym(k) or any(has_sym(x) for x in o)):
        for kk in o:
            if it.truth(equal(it, k, kk)):
                return o[kk]
        raise _PyExc(KeyError(_conc_or_str(k)))
    return NotImplemented


def _conc_or_str(k):
    return k if not has_sym(k) else repr(k)


def setitem(it, o, k, v):
    if isinstance(o, SymKeyDict):
        j = o.find(it, k)
        if j is None:
            o.entries.append((_fold_opt(it, k), v))
        else:
            o.entries[j] = (o.entries[j][0], v)
        return True
    if isinstance(o, SymMap):
        kt = _key(it, o, k)
        isn, val = _optparts(it, v)
        o.present = z3.Store(o.present, kt, z3.BoolVal(True))
        o.isnone = z3.Store(o.isnone, kt, isn)
        o.val = z3.Store(o.val, kt, val)
        return True
    if isinstance(o, SymList):
        k = _fold_opt(it, k)
        if isinstance(k, slice):
            lo, w = _slice_bounds(it, o, k)
            vals = list(it.iterate(v))
            if isinstance(w, SInt) or w != len(vals):
                raise Unsupported("slice store into SymList that changes its length")
            for j, x in enumerate(vals):
                isn, val = _optparts(it, x)
                o.isnone = z3.Store(o.isnone, z3.simplify(lo + j), isn)
                o.val = z3.Store(o.val, z3.simplify(lo + j), val)
            return True
        if k is None:
            raise _PyExc(TypeError("list indices must be integers or slices, not NoneType"))
        kt = lift_int(k)
        if it.decide(z3.And(kt >= 0, kt < o.length)):
            pass
        elif it.decide(z3.And(kt < 0, kt >= -o.length)):
            kt = kt + o.length
        else:
            raise _PyExc(IndexError("list assignment index out of range"))
        isn, val = _optparts(it, v)
        o.isnone = z3.Store(o.isnone, kt, isn)
        o.val = z3.Store(o.val, kt, val)
        return True
    if isinstance(o, list) and isinstance(k, (SInt, OptInt)):
        k = _fold_opt(it, k)
        if k is None:
            raise _PyExc(TypeError("list indices must be integers or slices, not NoneType"))
        if isinstance(k, int):
            try:
                o[k] = v
            except IndexError as e:
                raise _PyExc(e)
            return True
        n = len(o)
        for i in range(n):
            if it.decide(k.t == i):
                o[i] = v
                return True
        for i in range(1, n + 1):
            if it.decide(k.t == -i):
                o[-i] = v
                return True
        raise _PyExc(IndexError("list assignment index out of range"))
    if isinstance(o, dict) and (has_sym(k) or any(has_sym(x) for x in o)):
        for kk in list(o):
            if it.truth(equal(it, k, kk)):
                o[kk] = v
                return True
        if has_sym(k):
            raise Unsupported("insertion of symbolic key into concrete dict")
        o[k] = v
        return True
    if isinstance(o, (Sym, SymBytes, SymStruct)):
        raise _PyExc(TypeError("object does not support item assignment"))
    return NotImplemented


def _optparts(it, v):
    if v is None:
        return z3.BoolVal(True), z3.IntVal(0)
    if isinstance(v, OptInt):
        return v.isnone, v.val
    if isinstance(v, (SInt, SBool, int)):
        return z3.BoolVal(False), lift_int(v)
    raise Unsupported(f"value {v!r} stored into Optional[int] map")


def delitem(it, o, k):
    if isinstance(o, SymKeyDict):
        j = o.find(it, k)
        if j is None:
            raise _PyExc(KeyError(_conc_or_str(k)))
        o.entries.pop(j)
        return True
    if isinstance(o, SymMap):
        kt = _key(it, o, k)
        if not it.decide(z3.Select(o.present, kt)):
            raise _PyExc(KeyError(_conc_or_str(k)))
        o.present = z3.Store(o.present, kt, z3.BoolVal(False))
        return True
    return NotImplemented


def _slice_bounds(it, o, k):
    """(lo term, width int) of a slice of a SymList whose bounds lie inside the list and whose width is concrete"""
    if k.step is not None:
        raise Unsupported("stepped slice of SymList")
    lo = lift_int(_fold_opt(it, k.start)) if k.start is not None else z3.IntVal(0)
    hi = lift_int(_fold_opt(it, k.stop)) if k.stop is not None else o.length
    if not it.decide(z3.And(lo >= 0, hi <= o.length, lo <= hi)):
        # python clamps out-of-range bounds; handled only when the result is then empty or a prefix
        if it.decide(lo >= o.length) or it.decide(hi <= lo):
            return lo, 0
        if it.decide(z3.And(lo >= 0, lo <= o.length, hi > o.length)):
            hi = o.length
        else:
            raise Unsupported("slice bounds of SymList outside the list (negative / clamped)")
    w = z3.simplify(hi - lo)
    if not z3.is_int_value(w):
        s = it.solver()
        if s.check() == z3.sat:
            m = s.model().eval(w, model_completion=True)
            if s.check(w != m) == z3.unsat:
                return lo, m.as_long()
        return lo, SInt(w)
    return lo, w.as_long()


class SymListView(SymContainer):
    """slice [lo, lo+width) of a SymList with symbolic width (read-only window, used by the wait instructions)"""

    def __init__(self, base, lo, width):
        self.base = base
        self.lo = lo
        self.width = width


def symlist_slice(it, o, k):
    lo, w = _slice_bounds(it, o, k)
    if isinstance(w, SInt):
        return SymListView(o, lo, w.t)
    return [OptInt(z3.Select(o.isnone, z3.simplify(lo + j)), z3.Select(o.val, z3.simplify(lo + j))) for j in range(w)]


def bytesfn_getitem(it, o, k):
    if isinstance(k, slice):
        if k.step is not None:
            raise Unsupported("stepped slice")
        lo = lift_int(k.start) if k.start is not None else z3.IntVal(0)
        hi = lift_int(k.stop) if k.stop is not None else o.length
        # python clamps; we require (and check) the bounds to be inside
        s = it.solver()
        inside = z3.And(lo >= 0, hi <= o.length, lo <= hi)
        if s.check(z3.Not(inside)) != z3.unsat:
            # general clamping semantics
            lo = z3.If(lo < 0, z3.If(lo + o.length < 0, 0, lo + o.length), z3.If(lo > o.length, o.length, lo))
            hi = z3.If(hi < 0, z3.If(hi + o.length < 0, 0, hi + o.length), z3.If(hi > o.length, o.length, hi))
            hi = z3.If(hi < lo, lo, hi)
        ln = z3.simplify(hi - lo)
        if z3.is_int_value(ln):
            n = ln.as_long()
            return SymBytes([mk_int(o.at(z3.simplify(lo + j))) for j in range(n)])
        # try to prove the length constant
        m = None
        if s.check() == z3.sat:
            m = s.model().eval(ln, model_completion=True)
            if s.check(ln != m) == z3.unsat:
                n = m.as_long()
                return SymBytes([mk_int(o.at(z3.simplify(lo + j))) for j in range(n)])
        lo0 = lo
        return SymBytesFn(ln, lambda i: o.at(lo0 + i))
    kt = lift_int(k)
    if it.decide(z3.And(kt >= 0, kt < o.length)):
        return mk_int(o.at(kt))
    raise Unsupported("index outside SymBytesFn / negative index")


# ---------------------------------------------------------------- strings (segment strings)
class SegStr(SymContainer):
    """string made of literal pieces and ``dec(n)`` holes (decimal rendering of a symbolic
    int).  parts: list of str | ('dec', SInt)"""

    def __init__(self, parts):
        out = []
        for p in parts:
            if isinstance(p, str):
                if p == "":
                    continue
                if out and isinstance(out[-1], str):
                    out[-1] += p
                else:
                    out.append(p)
            else:
                out.append(p)
        self.parts = out

    def __repr__(self):
        return "SegStr(" + "".join(p if isinstance(p, str) else "{" + str(p[1].t) + "}" for p in self.parts) + ")"

    def contains(self, it, x):
        from . import segstr
        if isinstance(x, SegStr):
            raise Unsupported("segment string as a needle")
        return segstr.contains(it, self, x)

    def getitem(self, it, k):
        from . import segstr
        return segstr.getitem(it, self, k)


def format_value(it, v, spec):
    if spec not in (None, ""):
        if has_sym(v):
            raise Unsupported("format spec on symbolic value")
        return format(v, spec if isinstance(spec, str) else str(spec))
    return to_str(it, v)


def to_str(it, v):
    v = _fold_opt(it, v)
    if isinstance(v, str):
        return v
    if isinstance(v, SegStr):
        return v
    if isinstance(v, SInt):
        return SegStr([("dec", v)])
    if isinstance(v, SBool):
        return "True" if it.decide(v.t) else "False"
    if isinstance(v, SEnum):
        for m in v.cls:
            if it.decide(v.t == m.value):
                return str(m)
        raise Unsupported("SEnum outside value set")
    if isinstance(v, (SymStruct, SymBytes, SReal)):
        return f"<{type(v).__name__}>"
    cls = type(v)
    from .interp import is_repo_function
    sf = it.class_lookup(cls, "__str__")
    if sf is not None and is_repo_function(sf):
        return it.call(sf, [v], {})
    if it._is_repo_class(cls) and (sf is object.__str__ or sf is None):
        rf = it.class_lookup(cls, "__repr__")
        if rf is not None and is_repo_function(rf):
            return it.call(rf, [v], {})
        if dataclasses.is_dataclass(v) and has_sym(v):
            parts = [cls.__qualname__ + "("]
            fl = [f for f in dataclasses.fields(v) if f.repr]
            for i, f in enumerate(fl):
                parts += [f.name + "=", to_repr(it, getattr(v, f.name))] + ([", "] if i < len(fl) - 1 else [])
            parts.append(")")
            return str_concat(it, parts)
    if has_sym(v, 2):
        if isinstance(v, (list, tuple)):
            o, c = ("[", "]") if isinstance(v, list) else ("(", ")")
            parts = [o]
            for i, x in enumerate(v):
                parts += [to_repr(it, x)] + ([", "] if i < len(v) - 1 else [])
            if isinstance(v, tuple) and len(v) == 1:
                parts.append(",")
            parts.append(c)
            return str_concat(it, parts)
        return f"<{type(v).__name__} with symbolic content>"
    try:
        return str(v)
    except Internal:
        raise
    except Exception as e:
        raise _PyExc(e)


def to_repr(it, v):
    if isinstance(v, str):
        return repr(v)
    if isinstance(v, SegStr):
        return str_concat(it, ["'", v, "'"])
    if has_sym(v, 2) or isinstance(v, Sym):
        return to_str(it, v)
    try:
        return repr(v)
    except Internal:
        raise
    except Exception as e:
        raise _PyExc(e)


def str_concat(it, parts):
    flat = []
    for p in parts:
        if isinstance(p, SegStr):
            flat.extend(p.parts)
        elif isinstance(p, str):
            flat.append(p)
        elif isinstance(p, tuple) and p and p[0] == "dec":
            flat.append(p)
        else:
            raise Unsupported(f"string part {p!r}")
    s = SegStr(flat)
    if all(isinstance(p, str) for p in s.parts):
        return "".join(s.parts)
    return s


def keep_args(exc, args):
    """remember the (possibly symbolic) constructor arguments of an interpreted exception"""
    try:
        exc._pyvc_args = tuple(args)
    except Exception:
        pass
    return exc


def concretize_msg(v):
    """exception messages may contain symbolic pieces; they are not part of any contract"""
    if isinstance(v, SegStr):
        return "".join(p if isinstance(p, str) else "<int>" for p in v.parts)
    if isinstance(v, Sym):
        return f"<{type(v).__name__}>"
    return v


# ---------------------------------------------------------------- attribute access on symbolic values
def sym_getattr(it, o, name):
    if isinstance(o, SEnum):
        if name == "value":
            return mk_int(o.t)
        if name == "name":
            for m in o.cls:
                if it.decide(o.t == m.value):
                    return m.name
            raise Unsupported("SEnum outside value set")
        # other attributes: resolve the member
        for m in o.cls:
            if it.decide(o.t == m.value):
                return it.getattr(m, name)
        raise Unsupported("SEnum outside value set")
    if isinstance(o, SymBytes):
        if name == "hex":
            return lambda: "<hex>"
        raise Unsupported(f"bytes.{name} on symbolic bytes")
    if isinstance(o, (SInt, SBool)):
        if name in ("real", "numerator"):
            return o
        if name == "value":
            raise _PyExc(AttributeError("'int' object has no attribute 'value'"))
        raise _PyExc(AttributeError(f"'int' object has no attribute '{name}'"))
    raise Unsupported(f"attribute {name} of {type(o).__name__}")


def gen_getattr(it, g, name):
    from .interp import PyExc
    if name == "send":
        return lambda v=None: g.send(v)
    if name == "__next__":
        return lambda: g.send(None)
    if name == "close":
        return lambda: g.kill()
    if name == "throw":
        def th(e, *a):
            if isinstance(e, type):
                e = e()
            return g.throw(PyExc(e))
        return th
    raise Unsupported(f"generator attribute {name}")


class BoundModel:
    """bound method of a modelled container"""

    def __init__(self, fn, obj):
        self.fn = fn
        self.obj = obj


def getattr_model(it, o, name):
    if isinstance(o, OptInt):
        o2 = _fold_opt(it, o)
        if o2 is None:
            raise _PyExc(AttributeError(f"'NoneType' object has no attribute '{name}'"))
        return sym_getattr(it, o2, name) if isinstance(o2, Sym) else it.getattr(o2, name)
    if isinstance(o, (SymMap, SymList, SymSet, SegStr, SymKeyDict, SymIntSet)):
        f = None
        for k in type(o).__mro__:
            f = _METHODS.get((k, name))
            if f is not None:
                break
        if f is None:
            raise Unsupported(f"{type(o).__name__}.{name}")
        return BoundModel(f, o)
    if isinstance(o, (list, dict, set, str, bytes, tuple)):
        f = _METHODS.get((type(o), name))
        if f is not None:
            return BoundModel(f, o)
    return NotImplemented


# modelled methods ------------------------------------------------------------
def _symmap_get(it, m, k, default=None):
    kt = _key(it, m, k)
    if it.decide(z3.Select(m.present, kt)):
        return OptInt(z3.Select(m.isnone, kt), z3.Select(m.val, kt))
    return default


def _symmap_pop(it, m, k, *default):
    kt = _key(it, m, k)
    if it.decide(z3.Select(m.present, kt)):
        v = OptInt(z3.Select(m.isnone, kt), z3.Select(m.val, kt))
        m.present = z3.Store(m.present, kt, z3.BoolVal(False))
        return v
    if default:
        return default[0]
    raise _PyExc(KeyError(_conc_or_str(k)))


def _symset_add(it, s, x):
    if has_sym(x):
        raise Unsupported("SymSet.add of symbolic element")
    if x not in s.bits:
        raise Unsupported(f"SymSet.add outside universe: {x!r}")
    s.bits[x] = z3.BoolVal(True)


def _symset_remove(it, s, x):
    if has_sym(x):
        raise Unsupported("SymSet.remove of symbolic element")
    if x not in s.bits or not it.decide(s.bits[x]):
        raise _PyExc(KeyError(x))
    s.bits[x] = z3.BoolVal(False)


def _symset_discard(it, s, x):
    if x in s.bits:
        s.bits[x] = z3.BoolVal(False)


def _list_append(it, l, x):
    l.append(x)


def _sl_append(it, l, x):
    isn, val = _optparts(it, x)
    l.isnone = z3.Store(l.isnone, l.length, isn)
    l.val = z3.Store(l.val, l.length, val)
    l.length = z3.simplify(l.length + 1)


def _sl_shift(l, from_idx, by):
    """arrays of the list in which every position >= from_idx is moved by ``by`` (+1: make room, -1: close a gap)"""
    i = z3.Int("sl!i")
    l.isnone = z3.Lambda([i], z3.If(i >= from_idx, z3.Select(l.isnone, i - by), z3.Select(l.isnone, i)))
    l.val = z3.Lambda([i], z3.If(i >= from_idx, z3.Select(l.val, i - by), z3.Select(l.val, i)))


def _sl_pop(it, l, *a):
    if a:
        k = _fold_opt(it, a[0])
        kt = lift_int(k)
    else:
        kt = l.length - 1
    if not it.decide(l.length > 0):
        raise _PyExc(IndexError("pop from empty list"))
    if it.decide(z3.And(kt >= 0, kt < l.length)):
        pass
    elif it.decide(z3.And(kt < 0, kt >= -l.length)):
        kt = kt + l.length
    else:
        raise _PyExc(IndexError("pop index out of range"))
    kt = z3.simplify(kt)
    out = OptInt(z3.Select(l.isnone, kt), z3.Select(l.val, kt))
    _sl_shift(l, kt, -1)
    l.length = z3.simplify(l.length - 1)
    return out


def _sl_insert(it, l, k, x):
    kt = lift_int(_fold_opt(it, k))
    kt = z3.If(kt < 0, z3.If(kt + l.length < 0, 0, kt + l.length), z3.If(kt > l.length, l.length, kt))
    kt = z3.simplify(kt)
    isn, val = _optparts(it, x)
    _sl_shift(l, kt, 1)
    l.isnone = z3.Store(l.isnone, kt, isn)
    l.val = z3.Store(l.val, kt, val)
    l.length = z3.simplify(l.length + 1)


def _set_add(it, s, x):
    """set.add with a segment string: kept by identity (membership is decided by contains() as a disjunction of
    equalities, so a semantic duplicate is harmless; len()/iteration of such a set stay unsupported)"""
    if isinstance(x, SegStr):
        set.add(s, x)
        return None
    if has_sym(x):
        raise Unsupported("set.add of a symbolic element")
    try:
        set.add(s, x)
    except Exception as e:
        raise _PyExc(e)


def _list_remove(it, l, x):
    for i, y in enumerate(l):
        if it.truth(equal(it, x, y)):
            del l[i]
            return None
    raise _PyExc(ValueError("list.remove(x): x not in list"))


def _list_index(it, l, x, *a):
    for i, y in enumerate(l):
        if it.truth(equal(it, x, y)):
            return i
    raise _PyExc(ValueError(f"{x!r} is not in list"))


def _list_count(it, l, x):
    """count without forking: concrete matches are counted, undetermined ones contribute If(eq, 1, 0)"""
    n = 0
    terms = []
    for y in l:
        e = equal(it, x, y)
        if e is True:
            n += 1
        elif e is False:
            continue
        else:
            terms.append(z3.If(e.t, 1, 0))
    if not terms:
        return n
    return mk_int(z3.IntVal(n) + z3.Sum(terms))


def _list_pop(it, l, *a):
    if a and isinstance(a[0], Sym):
        raise Unsupported("list.pop(symbolic)")
    try:
        return l.pop(*a)
    except IndexError as e:
        raise _PyExc(e)


def _list_insert(it, l, i, x):
    if isinstance(i, Sym):
        raise Unsupported("list.insert(symbolic)")
    l.insert(i, x)


def _list_extend(it, l, xs):
    l.extend(list(it.iterate(xs)))


def _dict_get(it, d, k, default=None):
    if not has_sym(k) and not any(has_sym(x) for x in d):
        try:
            return d.get(k, default)
        except TypeError as e:
            raise _PyExc(e)
    for kk in d:
        if it.truth(equal(it, k, kk)):
            return d[kk]
    return default


def _dict_pop(it, d, k, *default):
    if not has_sym(k) and not any(has_sym(x) for x in d):
        try:
            return d.pop(k, *default)
        except (KeyError, TypeError) as e:
            raise _PyExc(e)
    for kk in list(d):
        if it.truth(equal(it, k, kk)):
            return d.pop(kk)
    if default:
        return default[0]
    raise _PyExc(KeyError(_conc_or_str(k)))


def _dict_update(it, d, *a, **kw):
    for x in a:
        if isinstance(x, dict):
            for k, v in x.items():
                it.setitem(d, k, v)
        else:
            for k, v in it.iterate(x):
                it.setitem(d, k, v)
    for k, v in kw.items():
        d[k] = v


def _dict_setdefault(it, d, k, default=None):
    if has_sym(k):
        raise Unsupported("setdefault symbolic key")
    return d.setdefault(k, default)


def _bytes_join(it, sep, parts):
    parts = list(it.iterate(parts))
    if len(sep) != 0 and len(parts) > 1:
        raise Unsupported("bytes.join with separator")
    if isinstance(parts, SymFamily):
        raise Unsupported
    out = []
    any_sym = False
    for p in parts:
        if isinstance(p, SymBytes):
            out.extend(p.bs)
            any_sym = True
        elif isinstance(p, bytes):
            out.extend(list(p))
        else:
            raise _PyExc(TypeError(f"sequence item: expected a bytes-like object, {type(p).__name__} found"))
    if not any_sym:
        return bytes(out)
    return SymBytes(out)


def _str_join(it, sep, parts):
    parts = list(it.iterate(parts))
    for p in parts:
        if not isinstance(p, (str, SegStr)):
            raise _PyExc(TypeError(f"sequence item: expected str instance, {type(p).__name__} found"))
    out = []
    for i, p in enumerate(parts):
        if i:
            out.append(sep)
        out.append(p)
    return str_concat(it, out)


class SymFamily(SymContainer):
    """list of symbolic length n whose element i is ``elem(i_term)`` (python value possibly
    containing terms over i)."""

    def __init__(self, n, elem):
        self.n = n
        self.elem = elem


def _skd_get(it, d, k, default=None):
    j = d.find(it, k)
    return default if j is None else d.entries[j][1]


def _skd_pop(it, d, k, *default):
    j = d.find(it, k)
    if j is None:
        if default:
            return default[0]
        raise _PyExc(KeyError(_conc_or_str(k)))
    return d.entries.pop(j)[1]


def _sis_add(it, s, x):
    k = s.key(it, x)
    if k is None:
        raise Unsupported(f"element {x!r} for symbolic set")
    s.arr = z3.Store(s.arr, k, z3.BoolVal(True))


def _sis_remove(it, s, x):
    xt = s.key(it, x)
    if xt is None or not it.decide(z3.Select(s.arr, xt)):
        raise _PyExc(KeyError(_conc_or_str(x)))
    s.arr = z3.Store(s.arr, xt, z3.BoolVal(False))


def _sis_discard(it, s, x):
    k = s.key(it, x)
    if k is not None:
        s.arr = z3.Store(s.arr, k, z3.BoolVal(False))


def _ss_call(name):
    def f(it, s, *a, **k):
        from . import segstr as _ss
        return getattr(_ss, name)(it, s, *a, **k)
    return f


def _ss_lstrip(it, s, chars=None):
    from . import segstr as _ss
    return _ss.strip(it, s, chars, True, False)


def _ss_rstrip(it, s, chars=None):
    from . import segstr as _ss
    return _ss.strip(it, s, chars, False, True)


def _ss_strip(it, s, chars=None):
    from . import segstr as _ss
    return _ss.strip(it, s, chars, True, True)


_METHODS = {
    (SegStr, "find"): _ss_call("find"), (SegStr, "startswith"): _ss_call("startswith"), (SegStr, "endswith"): _ss_call("endswith"),
    (SegStr, "split"): _ss_call("split"), (SegStr, "lower"): _ss_call("lower"), (SegStr, "upper"): _ss_call("upper"),
    (SegStr, "replace"): _ss_call("replace"), (SegStr, "count"): _ss_call("count"),
    (SegStr, "strip"): _ss_strip, (SegStr, "lstrip"): _ss_lstrip, (SegStr, "rstrip"): _ss_rstrip,
    (SymKeyDict, "get"): _skd_get,
    (SymKeyDict, "pop"): _skd_pop,
    (SymIntSet, "add"): _sis_add,
    (SymIntSet, "remove"): _sis_remove,
    (SymIntSet, "discard"): _sis_discard,
    (SymMap, "get"): _symmap_get,
    (SymMap, "pop"): _symmap_pop,
    (SymSet, "add"): _symset_add,
    (SymSet, "remove"): _symset_remove,
    (SymSet, "discard"): _symset_discard,
    (SymList, "append"): _sl_append,
    (SymList, "pop"): _sl_pop,
    (SymList, "insert"): _sl_insert,
    (set, "add"): _set_add,
    (str, "replace"): _ss_call("replace"),
    (list, "append"): _list_append,
    (list, "remove"): _list_remove,
    (list, "index"): _list_index,
    (list, "count"): _list_count,
    (list, "pop"): _list_pop,
    (list, "insert"): _list_insert,
    (list, "extend"): _list_extend,
    (tuple, "index"): _list_index,
    (tuple, "count"): _list_count,
    (dict, "get"): _dict_get,
    (dict, "pop"): _dict_pop,
    (dict, "update"): _dict_update,
    (dict, "setdefault"): _dict_setdefault,
    (bytes, "join"): _bytes_join,
    (str, "join"): _str_join,
}


# ---------------------------------------------------------------- constructors / calls
class FromBuffer:
    def __init__(self, S):
        self.S = S


def construct(it, cls, args, kwargs):
    h = _BUILTINS.get(cls)
    if h is not None:
        return h(it, *args, **kwargs)
    return NotImplemented


def struct_init(it, obj, args, kwargs):
    """ctypes.Structure.__init__: positional args fill fields in order, keywords by name"""
    names = obj.field_names()
    if len(args) > len(names):
        raise _PyExc(TypeError("too many initializers"))
    try:
        for n, v in zip(names, args):
            obj.store(n, _fold_opt(it, v))
        for k, v in kwargs.items():
            if k in names:
                obj.store(k, _fold_opt(it, v))
            else:
                raise Unsupported(f"struct kw {k} not a field")
    except (TypeError, IndexError) as e:
        raise _PyExc(e)
    return None


def enum_lookup(it, cls, args, kwargs):
    if len(args) != 1:
        return it.native(cls, args, kwargs)
    v = _fold_opt(it, args[0])
    if isinstance(v, SEnum):
        if v.cls is cls:
            return v
        raise _PyExc(ValueError(f"{v!r} is not a valid {cls.__name__}"))
    if isinstance(v, (SInt,)):
        vals = [m.value for m in cls]
        if not all(isinstance(x, int) for x in vals):
            raise Unsupported("symbolic lookup in non-int enum")
        valid = z3.Or([v.t == x for x in vals])
        if it.decide(valid):
            if len(vals) <= 1:
                return list(cls)[0]
            return SEnum(cls, v.t)
        raise _PyExc(ValueError(f"<sym> is not a valid {cls.__name__}"))
    try:
        return cls(v)
    except Internal:
        raise
    except Exception as e:
        raise _PyExc(e)


def _isinstance(it, o, c):
    if isinstance(c, tuple):
        return any(_isinstance(it, o, x) for x in c)
    if isinstance(o, OptInt):
        o = _fold_opt(it, o)
    if isinstance(o, SBool):
        return c in (bool, int, object)
    if isinstance(o, SInt):
        return c in (int, object)
    if isinstance(o, SReal):
        return c in (float, object)
    if isinstance(o, SEnum):
        return issubclass(o.cls, c)
    if isinstance(o, SymStruct):
        return issubclass(o.S, c)
    if isinstance(o, SymStructArray):
        return issubclass(o.t, c)
    if isinstance(o, (SymBytes, SymBytesFn)):
        return c in (bytes, object)
    if isinstance(o, SegStr):
        return c in (str, object)
    if isinstance(o, (SymMap, SymKeyDict)):
        return c in (dict, object)
    if isinstance(o, SymIntSet):
        return c in (set, object)
    if isinstance(o, (SymList, SymFamily, SymListView)):
        return c in (list, object)
    if isinstance(o, SymSet):
        return c in (set, object)
    from .interp import IGen, IFunc
    if isinstance(o, IGen):
        return c in (types.GeneratorType, object)
    if isinstance(o, IFunc):
        return c in (types.FunctionType, object)
    return isinstance(o, c)


def _len(it, o):
    if isinstance(o, SymBytes):
        return len(o.bs)
    if isinstance(o, SymBytesFn):
        return mk_int(o.length)
    if isinstance(o, SymList):
        return mk_int(o.length)
    if isinstance(o, SymFamily):
        return mk_int(o.n)
    if isinstance(o, SymKeyDict):
        return len(o.entries)
    if isinstance(o, SymListView):
        return mk_int(o.width)
    if isinstance(o, SymCArray):
        return len(o.vals)
    if isinstance(o, SymStructArray):
        return len(o.elems)
    if isinstance(o, SegStr):
        from . import segstr
        return segstr.length(it, o)
    if isinstance(o, Sym):
        raise _PyExc(TypeError(f"object of type '{type(o).__name__}' has no len()"))
    cls = type(o)
    if it._is_repo_class(cls):
        from .interp import is_repo_function
        lf = it.class_lookup(cls, "__len__")
        if lf is not None and is_repo_function(lf):
            return it.call(lf, [o], {})
    try:
        return len(o)
    except Internal:
        raise
    except Exception as e:
        raise _PyExc(e)


def _int(it, *a):
    if not a:
        return 0
    v = _fold_opt(it, a[0])
    if isinstance(v, SRatio):
        # trunc toward zero of num/den
        n, d = v.num, v.den
        q = z3.If(z3.Or(z3.And(n >= 0, d > 0), z3.And(n <= 0, d < 0)), n / d, -((-n) / d)) if False else None
        if it.decide(d > 0):
            if it.decide(n >= 0):
                return mk_int(n / d)
            return mk_int(-((-n) / d))
        raise Unsupported("int(ratio) with non-positive denominator")
    if isinstance(v, SInt):
        return v
    if isinstance(v, SBool):
        return mk_int(lift_int(v))
    if isinstance(v, SIntegral):
        return mk_int(v.k)
    if isinstance(v, SReal):
        # floor for nonneg (trunc); general: trunc toward zero
        it.fresh_ctr += 1
        k = z3.Int(f"trunc!{it.fresh_ctr}")
        if it.decide(v.t >= 0):
            it.add_assumption(z3.And(z3.ToReal(k) <= v.t, v.t < z3.ToReal(k) + 1))
        else:
            it.add_assumption(z3.And(z3.ToReal(k) >= v.t, v.t > z3.ToReal(k) - 1))
        return SInt(k)
    if isinstance(v, SegStr):
        from . import segstr
        return segstr.to_int(it, v)
    if isinstance(v, SEnum):
        raise _PyExc(TypeError("int() argument must be a string, a bytes-like object or a real number, not enum"))
    if len(a) == 1 and type(v) not in (int, bool, float, str, bytes):
        from .interp import is_repo_function
        f = it.class_lookup(type(v), "__int__")
        if f is not None and is_repo_function(f):
            return it.call(f, [v], {})
    return it.native(int, a, {})


def _float(it, *a):
    if not a:
        return 0.0
    v = _fold_opt(it, a[0])
    if isinstance(v, SReal):
        return v
    if isinstance(v, (SInt, SBool)):
        return SReal(z3.ToReal(lift_int(v)))
    return it.native(float, a, {})


def _bool(it, *a):
    if not a:
        return False
    v = a[0]
    if isinstance(v, SBool):
        return v
    return it.truth(v)


def _str(it, *a):
    if not a:
        return ""
    return to_str(it, a[0])


def _bytes(it, *a):
    if len(a) == 1:
        v = a[0]
        if isinstance(v, (SymStruct, SymStructArray)):
            return v.to_bytes()
        if isinstance(v, (SymBytes, SymBytesFn)):
            return v
        if isinstance(v, SInt):
            raise Unsupported("bytes(symbolic int)")
        if isinstance(v, list) and has_sym(v, 1):
            return SymBytes(v)
        cls = type(v)
        if it._is_repo_class(cls):
            from .interp import is_repo_function
            bf = it.class_lookup(cls, "__bytes__")
            if bf is not None and is_repo_function(bf):
                return it.call(bf, [v], {})
    return it.native(bytes, a, {})


def _tuple(it, *a):
    if not a:
        return ()
    return tuple(it.iterate(a[0]))


def _list(it, *a):
    if not a:
        return []
    if isinstance(a[0], (SymList, SymFamily)):
        return a[0]
    return list(it.iterate(a[0]))


def _set(it, *a):
    if not a:
        return set()
    if isinstance(a[0], SegStr):
        from . import segstr as _ss
        return _ss.charset(it, a[0])
    if isinstance(a[0], SymSet):
        return SymSet(a[0].name + "'", a[0].universe, dict(a[0].bits))
    return make_set(it, list(it.iterate(a[0])))


def _dict(it, *a, **kw):
    d = {}
    _dict_update(it, d, *a, **kw)
    return d


def _all(it, xs):
    for x in it.iterate(xs):
        if not it.truth(x):
            return False
    return True


def _any(it, xs):
    for x in it.iterate(xs):
        if it.truth(x):
            return True
    return False


def _sum(it, xs, start=0):
    acc = start
    for x in it.iterate(xs):
        acc = it.binop(ast.Add(), acc, x)
    return acc


def _minmax(which):
    def f(it, *a, **kw):
        if kw:
            raise Unsupported("min/max with key")
        xs = list(it.iterate(a[0])) if len(a) == 1 else list(a)
        if not xs:
            raise _PyExc(ValueError(f"{which}() arg is an empty sequence"))
        best = xs[0]
        for x in xs[1:]:
            c = order(it, ast.Lt() if which == "min" else ast.Gt(), x, best)
            if it.truth(c):
                best = x
        return best
    return f


def _abs(it, v):
    v = _fold_opt(it, v)
    if isinstance(v, SInt):
        return mk_int(z3.If(v.t >= 0, v.t, -v.t))
    if isinstance(v, SReal):
        return SReal(z3.If(v.t >= 0, v.t, -v.t))
    return it.native(abs, [v], {})


def _slice(it, *a):
    return slice(*[_fold_opt(it, x) for x in a])


def _filter(it, f, xs):
    out = []
    for x in it.iterate(xs):
        t = it.truth(x) if f is None else it.truth(it.call(f, [x], {}))
        if t:
            out.append(x)
    return out


def _map(it, f, *xss):
    cols = [list(it.iterate(xs)) for xs in xss]
    return [it.call(f, list(args), {}) for args in zip(*cols)]


def _enumerate(it, xs, start=0):
    return [(i + start, x) for i, x in enumerate(it.iterate(xs))] if not isinstance(start, Sym) else _unsupported("enumerate(start=sym)")


def _zip(it, *xs):
    return list(zip(*[list(it.iterate(x)) for x in xs]))


def _range(it, *a):
    a = [_fold_opt(it, x) for x in a]
    if any(isinstance(x, Sym) for x in a):
        return SymRange(*a)
    return it.native(range, a, {})


class SymRange(SymContainer):
    def __init__(self, *a):
        if len(a) == 1:
            self.start, self.stop, self.step = 0, a[0], 1
        elif len(a) == 2:
            self.start, self.stop, self.step = a[0], a[1], 1
        else:
            self.start, self.stop, self.step = a


def _unsupported(msg):
    raise Unsupported(msg)


def _type(it, *a):
    if len(a) != 1:
        return it.native(type, a, {})
    o = _fold_opt(it, a[0])
    if isinstance(o, SBool):
        return bool
    if isinstance(o, SInt):
        return int
    if isinstance(o, SReal):
        return float
    if isinstance(o, SEnum):
        return o.cls
    if isinstance(o, SymStruct):
        return o.S
    if isinstance(o, (SymBytes, SymBytesFn)):
        return bytes
    if isinstance(o, SegStr):
        return str
    if isinstance(o, (SymMap, SymKeyDict)):
        return dict
    if isinstance(o, SymIntSet):
        return set
    if isinstance(o, (SymList, SymFamily)):
        return list
    if isinstance(o, SymSet):
        return set
    return type(o)


def _getattr(it, o, name, *default):
    from .interp import PyExc
    try:
        return it.getattr(o, name)
    except PyExc as x:
        if default and isinstance(x.e, AttributeError):
            return default[0]
        raise


def _hasattr(it, o, name):
    from .interp import PyExc
    try:
        it.getattr(o, name)
        return True
    except PyExc as x:
        if isinstance(x.e, AttributeError):
            return False
        raise


def _setattr(it, o, name, v):
    it.setattr(o, name, v)


def _next(it, g, *default):
    from .interp import IGen, PyExc
    if isinstance(g, IGen):
        try:
            return g.send(None)
        except PyExc as x:
            if default and isinstance(x.e, StopIteration):
                return default[0]
            raise
    return it.native(next, [g] + list(default), {})


def _iter(it, x):
    return it.iterate(x)


def _sorted(it, xs, **kw):
    xs = list(it.iterate(xs))
    if "key" in kw and kw["key"] is not None:
        k = kw["key"]
        keys = [it.call(k, [x], {}) for x in xs]
        if has_sym(keys, 1):
            raise Unsupported("sorted with symbolic keys")
        idx = sorted(range(len(xs)), key=lambda i: keys[i], reverse=bool(kw.get("reverse", False)))
        return [xs[i] for i in idx]
    if has_sym(xs, 2):
        raise Unsupported("sorted with symbolic content")
    return sorted(xs, reverse=bool(kw.get("reverse", False)))


def _repr(it, v):
    return to_repr(it, v)


def _callable(it, v):
    from .interp import IFunc, IMethod
    if isinstance(v, (IFunc, IMethod, BoundModel)):
        return True
    return callable(v)


def _id(it, v):
    return id(v)


def _isinstance_b(it, *a):
    if len(a) != 2:
        raise _PyExc(TypeError(f"isinstance expected 2 arguments, got {len(a)}"))
    return _isinstance(it, a[0], a[1])


def _issubclass(it, a, b):
    return issubclass(a, b)


def _from_buffer_copy(it, fb, raw, *off):
    if isinstance(raw, (bytes, bytearray)):
        raw = SymBytes(list(raw))
    if isinstance(raw, SymBytesFn):
        raise Unsupported("from_buffer_copy of symbolic-length bytes")
    if not isinstance(raw, SymBytes):
        raise _PyExc(TypeError("a bytes-like object is required"))
    if issubclass(fb.S, ctypes.Structure):
        try:
            return SymStruct.from_bytes(fb.S, raw)
        except ValueError as e:
            raise _PyExc(e)
    if issubclass(fb.S, ctypes.Array):
        if not issubclass(fb.S._type_, ctypes.Structure):
            raise Unsupported("from_buffer_copy of scalar array")
        try:
            return SymStructArray.from_bytes(fb.S, raw)
        except ValueError as e:
            raise _PyExc(e)
    # simple ctypes scalar, e.g. c_uint8.from_buffer_copy(raw[:1]).value
    n = ctypes.sizeof(fb.S)
    if len(raw) < n:
        raise _PyExc(ValueError("Buffer size too small"))
    v = 0
    from .values import _add, _mulc
    for i in range(n):
        v = _add(v, _mulc(raw.bs[i], 256 ** i))
    return SymScalar(fb.S, v)


class SymScalar:
    def __init__(self, t, v):
        self.t = t
        self.value = v


_BUILTINS = {
    isinstance: _isinstance_b, issubclass: _issubclass, len: _len, int: _int, float: _float, bool: _bool, str: _str, bytes: _bytes,
    tuple: _tuple, list: _list, set: _set, dict: _dict, all: _all, any: _any, sum: _sum, min: _minmax("min"),
    max: _minmax("max"), abs: _abs, enumerate: _enumerate, zip: _zip, range: _range, type: _type,
    getattr: _getattr, hasattr: _hasattr, setattr: _setattr, next: _next, iter: _iter, sorted: _sorted,
    repr: _repr, callable: _callable, id: _id, filter: _filter, map: _map, slice: _slice,
}


_INT_DUNDER_BIN = {"__add__": ast.Add, "__radd__": ast.Add, "__sub__": ast.Sub, "__mul__": ast.Mult, "__rmul__": ast.Mult,
                   "__floordiv__": ast.FloorDiv, "__mod__": ast.Mod, "__xor__": ast.BitXor, "__rxor__": ast.BitXor, "__and__": ast.BitAnd,
                   "__pow__": ast.Pow, "__truediv__": ast.Div, "__lshift__": ast.LShift, "__rshift__": ast.RShift}
_INT_DUNDER_CMP = {"__lt__": ast.Lt, "__le__": ast.LtE, "__gt__": ast.Gt, "__ge__": ast.GtE}


def int_dunder(it, name, args):
    """``int.__xxx__(value, ...)`` with a symbolic value (the Future wrappers call the int methods explicitly)"""
    v = _fold_opt(it, args[0])
    rest = [_fold_opt(it, x) for x in args[1:]]
    if name in ("__int__", "__index__", "__pos__", "real", "numerator", "__floor__", "__ceil__", "__round__", "conjugate"):
        return v
    if name == "__neg__":
        return binop(it, ast.Sub(), 0, v)
    if name == "__abs__":
        return _abs(it, v)
    if name == "__bool__":
        return it.truth(v)
    if name == "__float__":
        return _float(it, v)
    if name == "__eq__":
        return equal(it, v, rest[0])
    if name == "__ne__":
        r = equal(it, v, rest[0])
        return mk_bool(z3.Not(r.t)) if isinstance(r, SBool) else (not r)
    if name in _INT_DUNDER_CMP:
        return order(it, _INT_DUNDER_CMP[name](), v, rest[0])
    if name in _INT_DUNDER_BIN:
        return binop(it, _INT_DUNDER_BIN[name](), v, rest[0])
    if name in ("__rsub__",):
        return binop(it, ast.Sub(), rest[0], v)
    raise Unsupported(f"int.{name} on a symbolic value")


def call(it, fn, args, kwargs):
    if type(fn).__name__ in ("wrapper_descriptor", "method_descriptor") and getattr(fn, "__objclass__", None) is int \
            and args and isinstance(_fold_opt(it, args[0]), Sym):
        return int_dunder(it, fn.__name__, args)
    if isinstance(fn, BoundModel):
        return fn.fn(it, fn.obj, *args, **kwargs)
    if isinstance(fn, FromBuffer):
        return _from_buffer_copy(it, fn, *args)
    try:
        h = _BUILTINS.get(fn)
    except TypeError:
        h = None
    if h is not None:
        return h(it, *args, **kwargs)
    if isinstance(fn, type) and False:
        return NotImplemented
    # bound builtin methods on concrete containers with possibly symbolic args
    s = getattr_native(fn, "__self__")
    if s is not None and not isinstance(s, types.ModuleType):
        f = _METHODS.get((type(s), getattr_native(fn, "__name__")))
        if f is not None:
            return f(it, s, *args, **kwargs)
    ext = EXTRA_CALLS.get(fn) if _hashable(fn) else None
    if ext is not None:
        return ext(it, *args, **kwargs)
    return NotImplemented


import builtins as _b
getattr_native = lambda o, n: _b.getattr(o, n, None)


def _hashable(x):
    try:
        hash(x)
        return True
    except Exception:
        return False


EXTRA_CALLS = {}          # further library models registered by checks (numpy floor/log2, ...)


def iterate(it, v):
    if isinstance(v, OptInt):
        v = _fold_opt(it, v)
    if isinstance(v, SymBytes):
        return iter(v.bs)
    if isinstance(v, SymCArray):
        return iter(v.vals)
    if isinstance(v, SymStructArray):
        return iter(v.elems)
    if isinstance(v, (SymMap, SymList, SymFamily, SymRange, SymBytesFn, SymSet, SymKeyDict, SymIntSet, SymListView)):
        raise Unsupported(f"iteration over {type(v).__name__} (needs a loop contract)")
    if isinstance(v, SegStr):
        from . import segstr
        return segstr.iterate(it, v)
    if isinstance(v, dict):
        return iter(list(v))
    if isinstance(v, (list, tuple)):
        return _live_list_iter(v) if isinstance(v, list) else iter(v)
    return NotImplemented


def _live_list_iter(l):
    i = 0
    while i < len(l):
        yield l[i]
        i += 1


def loop_hook(it, st, sc):
    """loop contracts from the sidecar, keyed by (function qualname, loop ordinal)"""
    h = getattr(it, "loop_contracts", None)
    if h and sc.fn_node is not None:
        from .interp import node_ordinal
        k = node_ordinal(sc.fn_node, st, (ast.For, ast.While))
        f = h.get((sc.fn_qual, k))
        if f is not None:
            if f(it, st, sc) is NotImplemented:
                return NotImplemented
            return True
    return NotImplemented


def foreach_generic_element(it, st, sc):
    """loop contract for ``for x in <SymList>: <pure body>``: the body is executed once on a generic element
    (fresh index inside the list); it may raise, it must not be relied on for effects.  Falls back to the
    ordinary loop when the iterable is concrete."""
    src = it.ev(st.iter, sc)
    if not isinstance(src, SymList):
        itr = it.iterate(src)
        from .interp import _Break, _Continue
        for x in itr:
            it.assign(st.target, x, sc)
            try:
                it.exec_block(st.body, sc)
            except _Break:
                return True
            except _Continue:
                continue
        it.exec_block(st.orelse, sc)
        return True
    it.fresh_ctr += 1
    i = z3.Int(f"elem!{it.fresh_ctr}")
    if it.decide(src.length > 0):
        it.pc.append(z3.And(i >= 0, i < src.length))
        it.assign(st.target, OptInt(z3.Select(src.isnone, i), z3.Select(src.val, i)), sc)
        it.exec_block(st.body, sc)
    return True


def comp_hook(it, e, sc, contracts_only=False):
    """list comprehension over a symbolic range:  [f(i) for i in range(n)]  ->  SymFamily"""
    h = getattr(it, "comp_contracts", None)
    if h and sc.fn_node is not None:
        from .interp import node_ordinal
        k = node_ordinal(sc.fn_node, e, (ast.ListComp, ast.SetComp, ast.DictComp, ast.GeneratorExp))
        f = h.get((sc.fn_qual, k))
        if f is not None:
            return f(it, e, sc)
    if contracts_only:
        return NotImplemented
    if len(e.generators) == 1 and not e.generators[0].ifs:
        g = e.generators[0]
        src = it.ev(g.iter, sc)
        if isinstance(src, SymRange):
            if not (isinstance(src.start, int) and src.start == 0 and isinstance(src.step, int) and src.step == 1):
                raise Unsupported("symbolic range with start/step")
            n = lift_int(src.stop)
            from .interp import Scope
            it.fresh_ctr += 1
            i = z3.Int(f"idx!{it.fresh_ctr}")
            s = Scope(sc)
            # element evaluated once at a fresh symbolic index (0 <= i < n assumed for the evaluation)
            mark = len(it.pc)
            it.pc.append(z3.And(i >= 0, i < n))
            it.assign(g.target, SInt(i), s)
            el = it.ev(e.elt, s)
            fam = SymFamily(n, (i, el))
            fam.guard_index = mark
            return fam
        # not symbolic: evaluate normally but reuse the evaluated iterable
        out = []
        from .interp import Scope
        s = Scope(sc)
        for x in it.iterate(src):
            it.assign(g.target, x, s)
            out.append(it.ev(e.elt, s))
        return out
    return NotImplemented
