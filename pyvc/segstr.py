"""Segment strings: a string made of literal pieces and *holes* -- the decimal rendering of a symbolic
integer (``str(n)`` / an f-string field).  Every string operation the repository's parser and printers use
is decided *structurally*: it may look at literal characters and at segment boundaries, it may fork on the
sign of a hole, but it never guesses the digits of a hole -- any operation whose result would depend on
them raises ``Unsupported`` (=> the obligation is undecided, never wrong).

Assumed lemma about the builtins (validated by the bounded cross-checks):  for every integer n,
``str(n)`` is an optional '-' followed by one or more decimal digits, and ``int(str(n)) == n``.

A hole is ('dec', SInt) -- signed, not yet split -- or ('udec', term) -- a non-negative integer term, digits only.
Lengths of holes are terms ``DLEN(m) >= 1`` of an uninterpreted function, so positions inside a segment
string are ordinary (symbolic) integers and the code's index arithmetic is executed as written.
"""
from __future__ import annotations

import z3

from .values import SBool, SInt, Sym, Unsupported, lift_int, mk_bool, mk_int

DLEN = z3.Function("declen", z3.IntSort(), z3.IntSort())
DIGITS = "0123456789"


def _M():
    from . import models
    return models


def _exc(e):
    from .interp import PyExc
    return PyExc(e)


class DigitChar:
    """one character taken from inside a hole: some decimal digit (which one is unknown)"""

    def __repr__(self):
        return "<digit>"


def mk(parts):
    M = _M()
    s = M.SegStr(parts)
    if all(isinstance(p, str) for p in s.parts):
        return "".join(s.parts)
    return s


def parts_of(v):
    M = _M()
    if isinstance(v, str):
        return [v] if v else []
    if isinstance(v, M.SegStr):
        return list(v.parts)
    raise Unsupported(f"not a string: {v!r}")


def normalise(it, s):
    """split every signed hole by the sign of its value (forks): dec(n) -> '-' udec(-n) | udec(n)"""
    out = []
    for p in parts_of(s):
        if isinstance(p, tuple) and p[0] == "dec":
            n = p[1]
            t = lift_int(n)
            if isinstance(n, int):
                out.append(str(n))
            elif it.decide(t < 0):
                out.append("-")
                out.append(("udec", -t))
                it.pc.append(DLEN(-t) >= 1)
            else:
                out.append(("udec", t))
                it.pc.append(DLEN(t) >= 1)
        else:
            out.append(p)
    M = _M()
    return M.SegStr(out).parts          # merged literals


def plen(p):
    return len(p) if isinstance(p, str) else DLEN(p[1])


def length(it, s):
    ps = normalise(it, s)
    t = z3.IntVal(0)
    for p in ps:
        t = t + plen(p)
    return mk_int(t)


def _cums(ps):
    out = [z3.IntVal(0)]
    for p in ps:
        out.append(out[-1] + plen(p))
    return out


def _concrete(it, t):
    """numeral value of term t if it is determined on this path, else None"""
    t = z3.simplify(t)
    if z3.is_int_value(t):
        return t.as_long()
    s = it.solver()
    if s.check() != z3.sat:
        return None
    v = s.model().eval(t, model_completion=True)
    if s.check(t != v) == z3.unsat:
        return v.as_long()
    return None


def locate(it, ps, pos):
    """pos (int | SInt) -> (part index k, offset o) with pos == cum[k] + o, 0 <= o <= len(part k) and o inside a
    literal part or at a boundary.  Python clamping of slice bounds is handled by the callers."""
    cums = _cums(ps)
    pt = lift_int(pos)
    for k in range(len(ps) + 1):
        d = _concrete(it, pt - cums[k])
        if d is None:
            continue
        if k == len(ps):
            if d == 0:
                return k, 0
            continue
        p = ps[k]
        if isinstance(p, str):
            if 0 <= d <= len(p):
                return k, d
        else:
            if d == 0:
                return k, 0
    raise Unsupported("position inside a segment string cannot be located structurally")


def _cut(ps, k, o):
    """split the part list at (k, o) -> (left parts, right parts)"""
    if k >= len(ps):
        return list(ps), []
    p = ps[k]
    if isinstance(p, str):
        return list(ps[:k]) + ([p[:o]] if o else []), ([p[o:]] if o < len(p) else []) + list(ps[k + 1:])
    return list(ps[:k]), list(ps[k:])


def getitem(it, s, key):
    ps = normalise(it, s)
    if isinstance(key, slice):
        if key.step is not None:
            raise Unsupported("stepped slice of a segment string")
        total = length(it, mk(ps))
        lo, hi = key.start, key.stop
        left = ps
        if hi is not None:
            hi = _clamp(it, hi, total)
            k, o = locate(it, ps, hi)
            left, _ = _cut(ps, k, o)
        if lo is not None:
            lo = _clamp(it, lo, total)
            if hi is not None and it.truth(_M().order(it, __import__("ast").Gt(), lo, hi)):
                return ""
            k, o = locate(it, ps, lo)
            l2, r2 = _cut(ps, k, o)
            if hi is None:
                return mk(r2)
            # remove the first len(l2-parts) from ``left``
            return mk(_drop_prefix(it, left, l2))
        return mk(left)
    # single index
    if isinstance(key, Sym):
        raise Unsupported("symbolic index into a segment string")
    if not ps:
        raise _exc(IndexError("string index out of range"))
    if key < 0:
        # from the end
        rem = -key
        for p in reversed(ps):
            if isinstance(p, str):
                if rem <= len(p):
                    return p[len(p) - rem]
                rem -= len(p)
            else:
                if rem == 1:
                    return DigitChar()
                raise Unsupported("index reaches into a hole from the end")
        raise _exc(IndexError("string index out of range"))
    rem = key
    for p in ps:
        if isinstance(p, str):
            if rem < len(p):
                return p[rem]
            rem -= len(p)
        else:
            if rem == 0:
                return DigitChar()
            raise Unsupported("index past the first character of a hole")
    raise _exc(IndexError("string index out of range"))


def _drop_prefix(it, ps, prefix):
    ps = list(ps)
    for q in prefix:
        if not ps:
            raise Unsupported("slice bounds")
        p = ps[0]
        if isinstance(q, str) and isinstance(p, str) and p.startswith(q):
            rest = p[len(q):]
            ps = ([rest] if rest else []) + ps[1:]
        elif not isinstance(q, str) and not isinstance(p, str) and z3.eq(q[1], p[1]):
            ps = ps[1:]
        else:
            raise Unsupported("slice bounds")
    return ps


def _clamp(it, v, total):
    M = _M()
    v = M._fold_opt(it, v)
    if isinstance(v, int):
        if v >= 0:
            # may exceed the length: clamp if provably so
            if it.truth(M.order(it, __import__("ast").Gt(), v, total)):
                return total
            return v
        r = M.binop(it, __import__("ast").Add(), total, v) if isinstance(total, Sym) else total + v
        if it.truth(M.order(it, __import__("ast").Lt(), r, 0)):
            return 0
        return r
    if it.truth(M.order(it, __import__("ast").Lt(), v, 0)):
        raise Unsupported("negative symbolic slice bound")
    if it.truth(M.order(it, __import__("ast").Gt(), v, total)):
        return total
    return v


def _needle_ok(needle, ps=None):
    if not isinstance(needle, str):
        raise Unsupported(f"needle {needle!r}")
    if any(ch in DIGITS for ch in needle):
        # a needle with digits is decidable structurally iff no occurrence can reach into a hole: it does not start
        # with a digit, and no literal piece in front of a hole ends with a proper prefix of the needle that a digit continues
        if ps is None or needle[0] in DIGITS:
            raise Unsupported("search for a digit in a segment string")
        for k, p in enumerate(ps[:-1]):
            if isinstance(p, str) and not isinstance(ps[k + 1], str):
                for j in range(1, len(needle)):
                    if needle[j] in DIGITS and p.endswith(needle[:j]):
                        raise Unsupported("needle could match into the digits of a hole")


def find(it, s, needle, *a):
    if a:
        raise Unsupported("find with start/end")
    ps = normalise(it, s)
    _needle_ok(needle, ps)
    cums = _cums(ps)
    for k, p in enumerate(ps):
        if isinstance(p, str):
            j = p.find(needle)
            if j != -1:
                return mk_int(cums[k] + j)
    return -1


def contains(it, s, needle):
    if isinstance(needle, DigitChar):
        raise Unsupported("digit in segment string")
    ps = normalise(it, s)
    _needle_ok(needle, ps)
    if needle == "":
        return True
    return any(isinstance(p, str) and needle in p for p in ps)


def count(it, s, needle):
    ps = normalise(it, s)
    _needle_ok(needle, ps)
    return sum(p.count(needle) for p in ps if isinstance(p, str))


def startswith(it, s, prefix):
    if isinstance(prefix, tuple):
        return any(startswith(it, s, x) for x in prefix)
    ps = normalise(it, s)
    if prefix == "":
        return True
    if not ps:
        return False
    p = ps[0]
    if isinstance(p, str):
        if len(p) >= len(prefix):
            return p.startswith(prefix)
        if not prefix.startswith(p):
            return False
        if all(ch not in DIGITS for ch in prefix[len(p):]):
            return False                 # next part is a hole (digits)
        raise Unsupported("prefix test reaches into a hole")
    if prefix[0] in DIGITS:
        raise Unsupported("prefix test on the digits of a hole")
    return False


def endswith(it, s, suffix):
    if isinstance(suffix, tuple):
        return any(endswith(it, s, x) for x in suffix)
    ps = normalise(it, s)
    if suffix == "":
        return True
    if not ps:
        return False
    p = ps[-1]
    if isinstance(p, str):
        if len(p) >= len(suffix):
            return p.endswith(suffix)
        if not suffix.endswith(p):
            return False
        if all(ch not in DIGITS for ch in suffix[:-len(p)]):
            return False
        raise Unsupported("suffix test reaches into a hole")
    if suffix[-1] in DIGITS:
        raise Unsupported("suffix test on the digits of a hole")
    return False


def strip(it, s, chars=None, left=True, right=True):
    ps = normalise(it, s)
    if chars is None:
        cs = " \t\n\r\x0b\x0c"
    else:
        cs = chars
    if any(ch in DIGITS for ch in cs):
        if any(not isinstance(p, str) for p in ps[:1] + ps[-1:]):
            raise Unsupported("strip of digit characters next to a hole")
    ps = list(ps)
    if left:
        while ps and isinstance(ps[0], str):
            t = ps[0].lstrip(cs)
            if t:
                ps[0] = t
                break
            ps.pop(0)
    if right:
        while ps and isinstance(ps[-1], str):
            t = ps[-1].rstrip(cs)
            if t:
                ps[-1] = t
                break
            ps.pop()
    return mk(ps)


def split(it, s, sep=None, maxsplit=-1):
    if sep is None:
        raise Unsupported("whitespace split of a segment string")
    _needle_ok(sep)
    if maxsplit != -1:
        raise Unsupported("split with maxsplit")
    ps = normalise(it, s)
    out = [[]]
    for p in ps:
        if isinstance(p, str):
            bits = p.split(sep)
            out[-1].append(bits[0])
            for b in bits[1:]:
                out.append([b])
        else:
            out[-1].append(p)
    return [mk(x) for x in out]


def lower(it, s):
    return mk([p.lower() if isinstance(p, str) else p for p in parts_of(s)])


def upper(it, s):
    return mk([p.upper() if isinstance(p, str) else p for p in parts_of(s)])


def replace(it, s, old, new, *a):
    if a:
        raise Unsupported("replace with count")
    M = _M()
    ps = normalise(it, s)
    _needle_ok(old, ps)
    out = []
    for p in ps:
        if isinstance(p, str):
            bits = p.split(old)
            for j, b in enumerate(bits):
                if j:
                    out.extend(parts_of(new))
                out.append(b)
        else:
            out.append(p)
    return mk(out)


def equal(it, a, b):
    """equality of two strings at least one of which has holes"""
    pa, pb = normalise(it, a), normalise(it, b)
    # structural comparison: same shape and equal hole values => equal; different literal skeleton => different
    if len(pa) == len(pb) and all((isinstance(x, str) and isinstance(y, str) and x == y) or
                                  (not isinstance(x, str) and not isinstance(y, str)) for x, y in zip(pa, pb)):
        conds = [x[1] == y[1] for x, y in zip(pa, pb) if not isinstance(x, str)]
        return mk_bool(z3.And(conds)) if conds else True
    # quick mismatch: one side is a literal without digits where the other has a hole, or non-digit skeletons differ
    la = "".join(p if isinstance(p, str) else "\x00" for p in pa)
    lb = "".join(p if isinstance(p, str) else "\x00" for p in pb)
    ska = "".join(ch for ch in la if ch not in DIGITS and ch != "\x00")
    skb = "".join(ch for ch in lb if ch not in DIGITS and ch != "\x00")
    if ska != skb:
        return False
    if (not pa) != (not pb):
        return False
    raise Unsupported("equality of segment strings with different segmentation")


class SegCharSet:
    """set(<segment string>): the literal characters plus, if there is a hole, some non-empty set of digits"""

    def __init__(self, chars, has_hole):
        self.chars = set(chars)
        self.has_hole = has_hole


def charset(it, s):
    ps = normalise(it, s)
    return SegCharSet("".join(p for p in ps if isinstance(p, str)), any(not isinstance(p, str) for p in ps))


def charset_le(it, cs, other, strict=False):
    other = set(other)
    if not cs.chars <= other:
        return False
    if cs.has_hole:
        if not set(DIGITS) <= other:
            raise Unsupported("subset test depends on the digits of a hole")
        if strict:
            if len(cs.chars | set(DIGITS)) < len(other):
                return True
            raise Unsupported("proper-subset test depends on the digits of a hole")
        return True
    return cs.chars < other if strict else True


def to_int(it, s):
    ps = normalise(it, s)
    if len(ps) == 1 and not isinstance(ps[0], str):
        return mk_int(ps[0][1])
    if len(ps) == 2 and ps[0] == "-" and not isinstance(ps[1], str):
        return mk_int(-ps[1][1])
    if len(ps) == 2 and ps[0] == "+" and not isinstance(ps[1], str):
        return mk_int(ps[1][1])
    if all(isinstance(p, str) for p in ps):
        try:
            return int("".join(ps))
        except ValueError as e:
            raise _exc(e)
    lit = "".join(p for p in ps if isinstance(p, str))
    if any(ch not in DIGITS + "-+ _" for ch in lit):
        raise _exc(ValueError("invalid literal for int() with base 10"))
    raise Unsupported("int() of literal digits adjacent to a hole")


def iterate(it, s):
    raise Unsupported("iteration over the characters of a segment string")
