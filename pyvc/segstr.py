"""Segment-string operations (decided structurally; used by the printer/parser checks).
Filled in by the C17/C03 work; until then every operation that would have to look inside
a ``dec(n)`` hole is Unsupported (=> undecided, never guessed)."""
from __future__ import annotations

from .values import Unsupported


def contains(it, s, x):
    raise Unsupported("SegStr.__contains__")


def getitem(it, s, k):
    raise Unsupported("SegStr.__getitem__")


def length(it, s):
    raise Unsupported("len(SegStr)")


def to_int(it, s):
    raise Unsupported("int(SegStr)")


def iterate(it, s):
    raise Unsupported("iter(SegStr)")
