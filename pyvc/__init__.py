"""pyvc -- verification-condition generator for the real netqasm sources (see DESIGN.md section 2)."""
