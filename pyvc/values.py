"""Symbolic value domain of the pyvc interpreter.

Python values are ordinary interpreter-level Python objects whose *leaves* may be
symbolic.  Symbolic leaves:

  SInt   mathematical integer (z3 Int)           -- Python ints are unbounded
  SBool  boolean (z3 Bool)
  SReal  real number (z3 Real)                   -- floats treated as reals (C19 only)
  SEnum  member of a concrete Enum class whose ``.value`` is symbolic
  SymStruct / SymBytes   ctypes structures and byte strings with symbolic content

Every dunder that native (non-interpreted) code could use to *look inside* a
symbolic value raises ``SymEscape`` -- so an unmodelled library call on a
symbolic value fails loudly (checker crash / undecided), never silently.
"""
from __future__ import annotations

import ctypes
import enum

import z3


class Internal(BaseException):
    """Base of engine-internal control exceptions (never caught by interpreted code)."""


class SymEscape(Internal):
    """A symbolic value reached native code that tried to inspect it."""


class Unsupported(Internal):
    """Construct or library call outside the modelled subset."""


def _esc(name):
    def f(self, *a, **k):
        raise SymEscape(f"{type(self).__name__}.{name} reached native code: {self!r}")
    return f


class Sym:
    __slots__ = ("t",)

    def __init__(self, t):
        self.t = t

    def __repr__(self):
        return f"{type(self).__name__}({self.t})"

    __str__ = __repr__
    __bool__ = _esc("__bool__")
    __hash__ = _esc("__hash__")
    __eq__ = _esc("__eq__")
    __ne__ = _esc("__ne__")
    __lt__ = _esc("__lt__")
    __le__ = _esc("__le__")
    __gt__ = _esc("__gt__")
    __ge__ = _esc("__ge__")
    __index__ = _esc("__index__")
    __int__ = _esc("__int__")
    __float__ = _esc("__float__")
    __add__ = __radd__ = __sub__ = __rsub__ = __mul__ = __rmul__ = _esc("arith")
    __mod__ = __rmod__ = __floordiv__ = __rfloordiv__ = __truediv__ = __rtruediv__ = _esc("arith")
    __neg__ = __abs__ = __pow__ = __rpow__ = _esc("arith")
    __iter__ = _esc("__iter__")
    __len__ = _esc("__len__")


class SInt(Sym):
    __slots__ = ()


class SBool(Sym):
    __slots__ = ()


class SReal(Sym):
    __slots__ = ()


class SEnum(Sym):
    """Member of enum class ``cls`` with symbolic value term (constrained to the value set
    by whoever creates it)."""
    __slots__ = ("cls",)

    def __init__(self, cls, t):
        self.cls = cls
        self.t = t

    def __repr__(self):
        return f"SEnum({self.cls.__name__},{self.t})"
    __str__ = __repr__


class SymContainer:
    """base of symbolic containers / optional values of pyvc.models: native code must not look inside"""
    __bool__ = _esc("__bool__")
    __len__ = _esc("__len__")
    __iter__ = _esc("__iter__")
    __contains__ = _esc("__contains__")


def is_sym(v):
    return isinstance(v, Sym)


def lift(v):
    """Python/symbolic scalar -> z3 term"""
    if isinstance(v, Sym):
        return v.t
    if isinstance(v, bool):
        return z3.BoolVal(v)
    if isinstance(v, int):
        return z3.IntVal(v)
    if isinstance(v, float):
        import fractions
        fr = fractions.Fraction(v)
        return z3.RealVal(f"{fr.numerator}/{fr.denominator}")
    if isinstance(v, enum.Enum) and isinstance(v.value, int):
        return z3.IntVal(v.value)
    raise Unsupported(f"cannot lift {type(v).__name__} {v!r}")


def lift_int(v):
    """as z3 Int term (bool -> 0/1)"""
    if isinstance(v, SBool):
        return z3.If(v.t, z3.IntVal(1), z3.IntVal(0))
    if isinstance(v, SReal):
        raise Unsupported("real used as int")
    if isinstance(v, bool):
        return z3.IntVal(int(v))
    return lift(v)


def lift_real(v):
    if isinstance(v, SReal):
        return v.t
    if isinstance(v, SInt):
        return z3.ToReal(v.t)
    if isinstance(v, (int, float)) and not isinstance(v, bool):
        return lift(float(v)) if isinstance(v, float) else z3.RealVal(v)
    raise Unsupported(f"cannot lift to real: {v!r}")


def mk_int(t):
    """wrap z3 Int term; fold numerals to Python ints"""
    t = z3.simplify(t) if not z3.is_int_value(t) else t
    if z3.is_int_value(t):
        return t.as_long()
    return SInt(t)


def mk_bool(t):
    t = z3.simplify(t)
    if z3.is_true(t):
        return True
    if z3.is_false(t):
        return False
    return SBool(t)


# ---------------------------------------------------------------- ctypes model

_SIGNED = (ctypes.c_int8, ctypes.c_int16, ctypes.c_int32, ctypes.c_int64, ctypes.c_byte,
           ctypes.c_short, ctypes.c_int, ctypes.c_long, ctypes.c_longlong)


def flat_fields(S):
    out = []
    for base in reversed(S.__mro__):
        if "_fields_" in base.__dict__:
            out += list(base.__dict__["_fields_"])
    return out


def _descr(S, name):
    d = getattr(S, name)
    if d.size >= 65536:            # bit field: (bits << 16) | shift   -- read from the real descriptor
        return d.offset, None, d.size >> 16, d.size & 0xFFFF
    return d.offset, d.size, d.size * 8, 0


def trunc(v, bits):
    if isinstance(v, bool):
        v = int(v)
    if isinstance(v, int):
        return v % (1 << bits)
    if isinstance(v, (SInt, SBool)):
        return mk_int(lift_int(v) % (1 << bits))
    raise TypeError(f"ctypes field store of {type(v).__name__}")   # what ctypes raises


def _add(a, b):
    if isinstance(a, int) and isinstance(b, int):
        return a + b
    return mk_int(lift_int(a) + lift_int(b))


def _mulc(a, k):
    if isinstance(a, int):
        return a * k
    return mk_int(a.t * k)


def _divc(a, k):
    if isinstance(a, int):
        return a // k
    return mk_int(a.t / k)


def byte_of(v, i):
    if isinstance(v, int):
        return (v >> (8 * i)) & 255
    return mk_int((v.t / (256 ** i)) % 256)


class SymStruct:
    """Value of a ctypes.Structure subclass.  Layout is read from the real class's field
    descriptors (offset, size, bit width, shift); stored field values are the *unsigned
    residues* modulo 2**width (ctypes truncates silently)."""

    def __init__(self, S, vals=None):
        object.__setattr__(self, "S", S)
        object.__setattr__(self, "vals", {})
        for f in flat_fields(S):
            name, t = f[0], f[1]
            if issubclass(t, ctypes.Structure):
                self.vals[name] = SymStruct(t)
            elif issubclass(t, ctypes.Array):
                self.vals[name] = [0] * t._length_
            else:
                self.vals[name] = 0
        for k, v in (vals or {}).items():
            self.store(k, v)

    def __setattr__(self, k, v):
        raise SymEscape("native setattr on SymStruct")

    def __repr__(self):
        return f"SymStruct({self.S.__name__},{self.vals})"

    def field_names(self):
        return [f[0] for f in flat_fields(self.S)]

    def ftype(self, name):
        for f in flat_fields(self.S):
            if f[0] == name:
                return f[1]
        raise AttributeError(name)

    def store(self, name, v):
        t = self.ftype(name)
        if issubclass(t, ctypes.Structure):
            if not (isinstance(v, SymStruct) and v.S is t):
                if isinstance(v, tuple):    # ctypes accepts a tuple initialiser for nested structs
                    v = SymStruct(t, dict(zip([f[0] for f in flat_fields(t)], v)))
                else:
                    raise TypeError(f"expected {t.__name__} instance, got {type(v).__name__}")
            self.vals[name] = v
            return
        if issubclass(t, ctypes.Array):
            v = list(v)
            if len(v) > t._length_:
                raise IndexError("invalid index")
            et = t._type_
            bits = ctypes.sizeof(et) * 8
            self.vals[name] = [trunc(x, bits) for x in v] + [0] * (t._length_ - len(v))
            return
        _, _, bits, _ = _descr(self.S, name)
        self.vals[name] = trunc(v, bits)

    def load(self, name):
        t = self.ftype(name)
        v = self.vals[name]
        if isinstance(v, SymStruct):
            return v
        if isinstance(v, list):
            return SymCArray(t, v)
        _, _, bits, _ = _descr(self.S, name)
        if t in _SIGNED:
            if isinstance(v, int):
                return v - (1 << bits) if v >= (1 << (bits - 1)) else v
            return mk_int(z3.If(v.t >= 2 ** (bits - 1), v.t - 2 ** bits, v.t))
        return v

    def to_bytes(self):
        n = ctypes.sizeof(self.S)
        acc = [0] * n
        for f in flat_fields(self.S):
            name, t = f[0], f[1]
            off, size, bits, shift = _descr(self.S, name)
            v = self.vals[name]
            if isinstance(v, SymStruct):
                for i, b in enumerate(v.to_bytes().bs):
                    acc[off + i] = b
            elif isinstance(v, list):
                esz = ctypes.sizeof(t._type_)
                for k, e in enumerate(v):
                    for i in range(esz):
                        acc[off + k * esz + i] = byte_of(e, i)
            elif size is None:        # bit field (all bit fields in this code base live in one byte)
                if shift + bits > 8 * ctypes.sizeof(t):
                    raise Unsupported("bit field spanning storage units")
                w = _mulc(v, 1 << shift)
                nbytes = ctypes.sizeof(t)
                for i in range(nbytes):
                    acc[off + i] = _add(acc[off + i], byte_of(w, i)) if nbytes > 1 else _add(acc[off], w)
            else:
                for i in range(size):
                    acc[off + i] = byte_of(v, i)
        return SymBytes(acc)

    @classmethod
    def from_bytes(cls, S, sb):
        bs = sb.bs if isinstance(sb, SymBytes) else list(sb)
        if len(bs) < ctypes.sizeof(S):
            raise ValueError(f"Buffer size too small ({len(bs)} instead of at least {ctypes.sizeof(S)} bytes)")
        s = cls(S)
        for f in flat_fields(S):
            name, t = f[0], f[1]
            off, size, bits, shift = _descr(S, name)
            if issubclass(t, ctypes.Structure):
                s.vals[name] = cls.from_bytes(t, SymBytes(bs[off:off + ctypes.sizeof(t)]))
            elif issubclass(t, ctypes.Array):
                esz = ctypes.sizeof(t._type_)
                out = []
                for k in range(t._length_):
                    v = 0
                    for i in range(esz):
                        v = _add(v, _mulc(bs[off + k * esz + i], 256 ** i))
                    out.append(v)
                s.vals[name] = out
            elif size is None:
                nbytes = ctypes.sizeof(t)
                w = 0
                for i in range(nbytes):
                    w = _add(w, _mulc(bs[off + i], 256 ** i))
                s.vals[name] = trunc(_divc(w, 1 << shift), bits)
            else:
                v = 0
                for i in range(size):
                    v = _add(v, _mulc(bs[off + i], 256 ** i))
                s.vals[name] = v
        return s


class SymCArray:
    """ctypes array field value (e.g. c_uint8 * 2)"""

    def __init__(self, t, vals):
        self.t = t
        self.vals = list(vals)

    def __iter__(self):
        return iter(self.vals)

    def __len__(self):
        return len(self.vals)

    def __getitem__(self, i):
        return self.vals[i]


class SymStructArray:
    """value of a ctypes array type whose elements are structures (e.g. OptionalInt * n)"""

    def __init__(self, t, elems):
        self.t = t
        self.elems = list(elems)

    def to_bytes(self):
        out = []
        for e in self.elems:
            out.extend(e.to_bytes().bs)
        return SymBytes(out)

    @classmethod
    def from_bytes(cls, t, sb):
        bs = sb.bs if isinstance(sb, SymBytes) else list(sb)
        et, n = t._type_, t._length_
        sz = ctypes.sizeof(et)
        if len(bs) < sz * n:
            raise ValueError(f"Buffer size too small ({len(bs)} instead of at least {sz * n} bytes)")
        return cls(t, [SymStruct.from_bytes(et, SymBytes(bs[i * sz:(i + 1) * sz])) for i in range(n)])

    def __len__(self):
        return len(self.elems)


class SymBytes:
    """bytes of concrete length; each element an int or SInt in 0..255"""

    def __init__(self, bs):
        self.bs = list(bs)

    def __len__(self):
        return len(self.bs)

    def __repr__(self):
        return f"SymBytes({self.bs})"

    def concrete(self):
        if all(isinstance(b, int) for b in self.bs):
            return bytes(self.bs)
        return None


class SymBytesFn:
    """bytes of *symbolic* length: ``length`` is an Int term, ``at(i_term)`` gives the byte
    term at index i (valid for 0 <= i < length)."""

    def __init__(self, length, at):
        self.length = length
        self.at = at

    def __repr__(self):
        return f"SymBytesFn(len={self.length})"


def has_sym(v, depth=4):
    """does value (shallowly, to ``depth``) contain symbolic leaves?"""
    if isinstance(v, (Sym, SymStruct, SymBytes, SymBytesFn, SymCArray, SymStructArray, SymContainer)):
        return True
    if depth <= 0:
        return False
    if isinstance(v, (str, bytes, int, float, type(None), enum.Enum, type)):
        return False
    if isinstance(v, (list, tuple, set, frozenset)):
        return any(has_sym(x, depth - 1) for x in v)
    if isinstance(v, dict):
        return any(has_sym(x, depth - 1) for x in v.values()) or any(has_sym(x, depth - 1) for x in v.keys())
    d = getattr(v, "__dict__", None)
    if isinstance(d, dict) and not isinstance(v, type):
        return any(has_sym(x, depth - 1) for x in d.values())
    return False
