"""Regenerates MANIFEST.json from the table below (run: .venv/bin/python tools_manifest.py)."""
import json

ALL = [f"C{i:02d}" for i in range(1, 21)]

COMMON_NOTE = ("Trusted base: the pyvc VC generator (symbolic interpreter of the real ASTs; DESIGN 2), its library models "
               "(ctypes layout by introspection, dataclass/enum/builtin models; DESIGN 3), z3/cvc5. Python ints are mathematical. "
               "Every run re-reads /repo sources; native CPython cross-check and canaries guard the engine.")

CHECKS = {
    "C01": dict(
        category="proof",
        text=("Round-trip contract per (flavour, instruction class) discharged by z3 for all in-range operand values; flavour-table "
              "injectivity; subroutine-level round trip incl. app id/version; framing lemma for any number of commands. "
              "One open known finding (vanilla opcode 41 shared by meas_basis and mov)."),
        technique="contract-based deductive verification: VCs from symbolic execution of the real serialize/deserialize ASTs, z3 LIA (div/mod encoding of the 56 payload bits)",
        design_ref="5.C01"),
    "C02": dict(
        category="proof",
        text=("Function-against-spec-function: bytes(serialize(x)) == wire.enc(pinned table, x.operands) for every class of every flavour, "
              "all operand values, discharged by z3; decode of spec-produced bytes; header layout; serialize purity; pinned-table agreement."),
        technique="contract-based deductive verification: real serialisers vs. a wire-format spec function written from the statement, VCs by symbolic execution, z3 LIA",
        design_ref="5.C02"),
    "C15": dict(
        category="proof",
        text=("Round-trip contract per message class over all field values in the pinned declared widths, dispatch-table bijection, "
              "Optional-int entries incl. None for lengths 0..3 (longer arrays by the position-independent element lemma + ctypes array model)."),
        technique="contract-based deductive verification: per-message round-trip contracts, VCs by symbolic execution of the real __init__/__bytes__/deserialize_from, z3 LIA",
        design_ref="5.C15"),
    "C16": dict(
        category="proof",
        text=("'Returns normally => decodes to the same operands' for every instruction class and the subroutine header over unbounded "
              "integers, discharged by z3 (ctypes truncation modelled); assembler and SDK entry routes as labelled bounded stand-ins."),
        technique="contract-based deductive verification: encode-or-reject contract per shape over all integers, VCs by symbolic execution, z3 LIA; bounded native route checks",
        design_ref="5.C16"),
    "C07": dict(
        category="proof",
        text=("Every gate x electron/carbon placement (virtual ids symbolic; the real transpiler's forks explored) yields a concrete NV circuit "
              "whose operator is compared exactly (Z[zeta64][1/2]) with the vanilla gate up to global phase, carbon-carbon as an operator identity "
              "on 3 wires (borrowed electron returned), MOV as state transfer; rotation operands by z3. The published-matrix clause is decided "
              "by exhaustive numeric evaluation over the operand grid and is reported as bounded, not counted as proved."),
        technique="contract-based deductive verification: symbolic execution of the real transpiler + exact cyclotomic operator identities; z3 LIA for rotation operands; numeric exhaustive stand-in for to_matrix",
        design_ref="5.C07"),
    "C20": dict(
        category="proof",
        text=("toffoli_gate, t_inverse and parity_meas (every Pauli string of length 1..3, with and without sign: the statement's finite domain, "
              "enumerated) are run on the real SDK builder and the emitted gate lists decided by exact operator algebra: Toffoli up to phase, "
              "T^7 = T^dagger, Kraus operators of the parity measurement equal the parity projectors for arbitrary input states, returned handle holds "
              "parity xor sign. set_qubit_state: z3 NRA spec lemma + bounded emission check. Not claimed: an external state-vector back end."),
        technique="contract-based deductive verification: real toolbox/builder code executed to gate lists, exact cyclotomic operator identities (Kraus operators), z3 NRA lemma; bounded emission sampling for set_qubit_state",
        design_ref="5.C20"),
    "C04": dict(
        category="proof",
        text=("Per-handler contract view(executor') == isa.step(view(executor), instr) for every classical/allocation instruction and the gate dispatch, "
              "over an arbitrary symbolic pre-state (symbolic register file, arrays of symbolic length at symbolic addresses, symbolic unit module and in-use "
              "set under the representation invariant) and arbitrary operands; fault <=> fault with no partial effect; other application untouched; fetch loop "
              "by loop contract (fetches commands[pc], stops at the fault, error starts with 'At line <pc>'). Termination/step bound not claimed."),
        technique="contract-based deductive verification: function-against-spec-function per instruction handler on symbolic executor states (z3 arrays + LIA + quantified invariant), loop contract for the fetch loop",
        design_ref="5.C04"),
    "C13": dict(
        category="proof",
        text=("Representation invariant (injective virtual->physical map, in-use set == image) preserved by qalloc, qfree, keep-response delivery (success / deferral / fault), "
              "stop_application and re-registration from every state satisfying it; frame conditions between applications; fresh subroutine ids; stop_application interleaved with "
              "another application's allocations at its yield points (exhaustive over small configurations). Bounded stand-in: every history of 4 (thorough: 5) operations out of 31 (qalloc, qfree, "
              "keep delivery, recv request, response through the pending list, reservation of a physical qubit for a pair in flight and its delivery, stop + re-registration) "
              "on the real executor, natively."),
        technique="contract-based deductive verification: inductive representation invariant per public operation on symbolic executor states, z3 (arrays, LIA, quantifiers)",
        design_ref="5.C13"),
    "C12": dict(
        category="proof",
        text=("Atomic-step contracts cover every interleaving of instruction steps and response deliveries (the executor is single threaded; other activity only at "
              "yield points): delivery of a response == spec function epr.deliver on the abstract view, proved symbolically for every request-queue shape with up to 3 "
              "outstanding requests (create/receive roles and two sockets mixed, 1..3 pairs, symbolic progress) and up to 2 earlier pending responses (at most 3 in total in the quick "
              "tier, 4 in the thorough tier), all identifiers symbolic; request registration appends at the end of the right queue; wait_all/any/single resume only when the awaited entries are defined. Safety reading "
              "only (at most once, oldest first, slice k); the largest shapes (4-5 objects) run in the thorough tier."),
        technique="contract-based deductive verification: atomic-step contracts against a spec function (z3 arrays + LIA + quantified well-formedness), loop contracts for the wait instructions",
        design_ref="5.C12"),
    "C11": dict(
        category="proof",
        text=("End-to-end symbolic execution of the real request path (EPRSocket call -> Builder -> assembler -> base Executor -> network stack -> qlink "
              "conversion) and of the real result path (link-layer response -> executor -> shared memory -> SDK handles) with the application's "
              "parameters (time unit/limit, rotations, random-basis sets, socket id) and the response fields symbolic, pair counts 1..3, K/M/R create "
              "and K/M receive: every field of the LinkLayerCreate and every result handle proved equal to its source. One open known finding (type R not convertible)."),
        technique="contract-based deductive verification: end-to-end symbolic execution of the real SDK/assembler/executor code with field-by-field postconditions, z3 LIA",
        design_ref="5.C11"),
    "C14": dict(
        category="proof",
        text=("Resource-balance contract (the active-register set after a completed operation equals the one before) and no-clobber contract (emitted commands "
              "write only the operation's own temporaries, which lie outside the enclosing live set, and no temporary is written while another live temporary "
              "holds the same register: liveness over the emitted control-flow graph) for every SDK operation kind, from an ARBITRARY symbolic active set; "
              "allocator contract by loop contract. Sequences of any length follow by induction (stated); long random sequences as bounded stand-in."),
        technique="contract-based deductive verification: balance/no-clobber contracts per completed SDK operation over a symbolic active-register set, allocator loop contract, z3 (arrays + LIA)",
        design_ref="5.C14"),
    "C05": dict(
        category="proof",
        text=("Per SDK construct (if_eq/ne/lt/ge/ez/nz in context and callback form, loop, loop_body, foreach, enumerate, loop_until, add on futures with/without "
              "modulus, arrays with initial values, measurement into arrays/futures/registers, two nestings, a program split over three flushes) a host program "
              "with SYMBOLIC data and measurement outcomes is executed through the real Builder -> assembler -> base Executor; gate applications, final arrays/"
              "registers and the values the host reads after every flush are proved equal to the construct's direct meaning. Arbitrary nesting/flush placement by "
              "stated induction over program structure."),
        technique="contract-based deductive verification: end-to-end symbolic execution of the real SDK/assembler/executor per construct, postconditions from direct semantics, z3 LIA",
        design_ref="5.C05"),
    "C06": dict(
        category="proof",
        text=("from_operands(x.operands) == x for every instruction class and all operand values; instantiate == substitution (KeyError iff a template is "
              "missing); and for a host program with a template in a rotation angle, compile + instantiate(v) + commit_subroutine sends the same subroutines, "
              "causes the same controller events, gives the host the same values and leaves the connection in the same state as flush() of the program written "
              "with v -- for all v (0..1000), all denominators, the three axes, with and without the NV transpiler, incl. later flushes and operations queued "
              "between compile and commit."),
        technique="contract-based deductive verification: substitution contracts per shape + end-to-end symbolic equality of templated and direct path through the real SDK/assembler/executor, z3 LIA",
        design_ref="5.C06"),
    "C09": dict(
        category="proof",
        text=("Local allocation-agreement lemma from every abstract state the SDK can reach while respecting the budget (budgets 1..5, generic and NV hardware, with and "
              "without the NV transpiler; states found by breadth-first exploration of the real SDK): every primitive (new qubit, gate, two-qubit gate, in-place/destructive "
              "measurement, free, EPR create/recv keep) and -- for the smaller budgets in the quick tier, all in the thorough tier -- every pair of primitives within one "
              "flush or split by a flush runs through the real pipeline without allocation fault, and after each flush the active handles' ids equal the controller's "
              "allocated virtual ids. The state space of the stated domain is finite and enumerated completely. One open known finding (EPR context form)."),
        technique="contract-based deductive verification: local lemma per primitive decided by complete enumeration of the finite abstract state space, real pipeline executed by the pyvc interpreter",
        design_ref="5.C09"),
    "C10": dict(
        category="proof",
        text=("The receiver's correction code for recv_keep / recv_keep_with_info / recv_keep with post routine (sequential) / recv_rsp / recv_rsp_with_info on generic and "
              "NV hardware, with and without another live qubit, is executed on the real executor with the Bell state of every delivered pair symbolic; rotations are "
              "attributed to physical qubits when applied: pair i's qubit receives exactly P(b_i), nothing else is touched, and nothing is applied with the expectation off "
              "(pair counts 1..2 quick, 3..4 thorough). Exact Pauli-table lemma ((P(b) x I)|bell_b> ~ |Phi+>); complete post-processing table for measure-directly (96 cases). "
              "Open known findings: generic all-at-once variants correct virtual qubit 0; NV multi-pair with another live qubit does not compile."),
        technique="contract-based deductive verification: symbolic execution of the emitted correction code on the real executor (symbolic Bell states), exact Pauli algebra, finite post-processing table",
        design_ref="5.C10"),
    "C03": dict(
        category="proof",
        text=("Translation validation per program schema, for all literal values: a structured source program is rendered to text (literals as decimal holes, macros, argument "
              "brackets) and built as IR, assembled by the real parse_text_subroutine / assemble_subroutine, executed on the real executor (with a step budget) and compared with a "
              "direct source-level interpretation (specs/asm_source.py): registers named by the source, arrays, host-visible returns, allocated qubits; structural clauses: source "
              "instructions kept in order, only `set <unnamed R register> <literal>` inserted, every branch lands on the (expansion of the) instruction after its label. Twelve "
              "schemas + 16 register-placement families (R_i and any other R_j named, up to three literals in one instruction) + macro obligations + IR with a shared operand list. "
              "The quantifier over program SHAPES is covered by these lists, not by an unbounded proof. Two defects found and fixed."),
        technique="contract-based deductive verification (translation validation): source-level meaning function vs. real assembler output on the real executor, symbolic literal values through the real text parser (segment strings), z3 LIA",
        design_ref="5.C03"),
    "C08": dict(
        category="proof",
        text=("Translation validation, for all data values: the vanilla program and its real NV transpilation are executed on the real executor (step budget; symbolic branch data / "
              "outcomes); equal classical memory incl. the Q registers the source writes, same measurements, exact (cyclotomic, up to global phase) equality of the operator applied "
              "between measurements, rotations with symbolic numerator; structural clauses. Programs: 12 hand-written schemas, 3 known-finding schemas, and EVERY program of four "
              "SDK-like templates (a IF{b} c, a LOOP2{b} c, a IF{b} at the end, IF{a} ELSE{b} c) over an 8-operation alphabet (quick) / 12 operations and a fifth template (thorough). "
              "Shapes outside the templates are not covered. Open known finding: two-qubit gate on a load-written qubit register."),
        technique="contract-based deductive verification (translation validation): vanilla vs. real NV-transpiled program on the real executor with symbolic data, z3 LIA + exact cyclotomic operator identities",
        design_ref="5.C08"),
    "C17": dict(
        category="proof",
        text=("parse_text_subroutine(preamble + str(x), flavour=f).instructions == [x] for every instruction class of every flavour and ALL in-range operand values "
              "(register banks x indices 0..15, 8-bit immediates, signed 32-bit integers and addresses incl. negative, array entries and slices with register indices): "
              "the real printers and the real parser are executed on segment strings whose integer renderings are holes; text -> Subroutine -> bytes -> Subroutine -> text "
              "stability with the real codec; the flavour object is created before the other flavours. Open known finding: vanilla meas_basis/mov opcode clash (C01)."),
        technique="contract-based deductive verification: segment-string symbolic execution of the real printers and the real text parser (decisions on literals, boundaries and signs only), z3 LIA; str/int builtin lemma assumed",
        design_ref="5.C17"),
    "C18": dict(
        category="other",
        text=("Safety under statement atomicity, NOT a proof of the full statement. (1) Rely/guarantee contracts per atomic step of the real hub code (steps extracted mechanically from "
              "/repo on every run; a `with self._lock` block or a statement is one step), discharged by pyvc/z3 for ALL queue contents and arbitrary interference by other threads "
              "between steps: recv pops exactly the head of its own queue and returns it, a non-blocking receive on an empty queue raises and changes nothing, send appends at the "
              "end of the receiver's queue (or calls its callback exactly once), connect publishes the key only after the callbacks and returns only if the remote is or was open, "
              "disconnect removes only its own key / its remote's marker; every step touches nothing outside its guarantee (no queue object replaced or removed). Socket-level wrappers "
              "forward message, block and timeout to the hub. (2) BOUNDED stand-in: all schedules with <= 2 (two threads) / 1 (four threads) preemptions in the quick tier, 4 / 2 in "
              "the thorough tier, for ten scenarios (two/three endpoints, two socket ids, plain/structured/callback/non-blocking delivery, connect/disconnect orders); a failing "
              "schedule is replayed. Liveness and sub-statement preemption are not claimed. One defect found and fixed (callbacks registered after the key was published)."),
        technique="contract-based deductive verification: rely/guarantee (Owicki-Gries) obligations per atomic step of the real hub code from arbitrary symbolic hub states (pyvc + z3); bounded stand-in: exhaustive preemption-bounded schedule exploration over mechanically extracted atomic steps",
        design_ref="5.C18"),
    "C19": dict(
        category="proof",
        text=("Loop-invariant proof of get_angle_spec_from_float over the reals for every angle and every tolerance in [1e-9, 1]: the real loop "
              "bodies are executed symbolically once from a havoc'd invariant state; steps encodable (0..255), sum within tol of angle mod 2pi, "
              "variant rest'*127 <= rest. IEEE rounding and the builder's per-step emission are covered by labelled bounded sweeps."),
        technique="contract-based deductive verification: loop contracts (havoc/assume/body/assert) on the real loops, z3 NRA with 2**d uninterpreted + instantiated facts; bounded native float sweep",
        design_ref="5.C19",
        note=COMMON_NOTE + " Floats are treated as mathematical reals; np.floor/np.log2/% by defining inequalities."),
}

NA_REASON = "check not built yet in this session (see DESIGN.md section 5 for the planned contracts)"


def main():
    checks = []
    for pid, c in CHECKS.items():
        checks.append({
            "property_id": pid,
            "quick_cmd": f"bin/check {pid} --tier quick",
            "thorough_cmd": f"bin/check {pid} --tier thorough",
            "evidence_file": f"evidence/{pid}.json",
            "replay_cmd_template": f"bin/check {pid} --replay {{path}}",
            "engine": "pyvc",
            "level_claimed": {"category": c["category"], "text": c["text"], "design_ref": c["design_ref"]},
            "level_note": c.get("note", COMMON_NOTE),
            "technique": c["technique"],
        })
    na = [{"property_id": p, "reason": NA.get(p, NA_REASON)} for p in ALL if p not in CHECKS]
    m = {
        "version": 1,
        "setup_cmd": "bin/setup",
        "hooks": {"guard": "NETQASM_VERIF", "enable": "no source hooks: contracts are sidecar files under /verif/checks; checks read /repo's working tree directly",
                  "baseline_off_cmd": "cd /repo && /venv/bin/python -m pytest -ra -q -p no:cacheprovider --timeout=900 --continue-on-collection-errors",
                  "source_commits": [], "add_only": True},
        "engines": [{"name": "pyvc", "path": "pyvc", "serves_properties": sorted(CHECKS),
                     "kind_free_text": "verification-condition generator: symbolic interpreter of the real Python ASTs with sidecar contracts, z3/cvc5 back ends, native replay"}],
        "checks": checks,
        "not_applicable": na,
        "notes": "See DESIGN.md. Exit codes of bin/check: 0 held (known findings printed), 1 violation, 2 undecided, 3 checker crash.",
    }
    json.dump(m, open("MANIFEST.json", "w"), indent=1)
    print("checks:", [c["property_id"] for c in checks], "n/a:", len(na))


NA = {}

if __name__ == "__main__":
    main()
