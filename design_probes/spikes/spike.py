"""Throw-away feasibility spike (NOT framework code): symbolic AST interpreter
running the real serialize/deserialize_from bodies of netqasm, z3 back end."""
import ast, inspect, textwrap, ctypes, dataclasses, enum, sys, time, types
import z3

class Sym:                      # symbolic mathematical integer
    def __init__(s, t): s.t = t
    def __repr__(s): return f"Sym({s.t})"
class SymBool:
    def __init__(s, t): s.t = t

def lift(v):
    if isinstance(v, Sym): return v.t
    if isinstance(v, bool): return z3.BoolVal(v)
    if isinstance(v, int): return z3.IntVal(v)
    raise TypeError(v)

class SymBytes:
    def __init__(s, bs): s.bs = list(bs)      # list of z3 Int terms in 0..255 (or python ints)
    def __len__(s): return len(s.bs)

def _flat_fields(S):
    out = []
    for base in reversed(S.__mro__):
        if '_fields_' in base.__dict__:
            out += list(base._fields_)
    return out

class SymStruct:
    """value of a ctypes.Structure subclass with symbolic leaves; layout by introspection"""
    def __init__(s, S, vals=None):
        s.S = S; s.vals = {}
        for f in _flat_fields(S):
            name, t = f[0], f[1]
            if issubclass(t, ctypes.Structure): s.vals[name] = SymStruct(t)
            elif issubclass(t, ctypes.Array): s.vals[name] = [0] * t._length_
            else: s.vals[name] = 0
        for k, v in (vals or {}).items(): s.store(k, v)
    def store(s, name, v):
        f = {x[0]: x for x in _flat_fields(s.S)}[name]; t = f[1]
        d = getattr(s.S, name)
        if issubclass(t, ctypes.Structure):
            assert isinstance(v, SymStruct) and v.S is t, (name, v)
            s.vals[name] = v; return
        if issubclass(t, ctypes.Array):
            s.vals[name] = list(v); return
        bits = (d.size >> 16) if d.size >= 65536 else d.size * 8
        s.vals[name] = trunc(v, bits)
    def load(s, name):
        f = {x[0]: x for x in _flat_fields(s.S)}[name]; t = f[1]
        v = s.vals[name]
        if isinstance(v, (SymStruct, list)): return v
        d = getattr(s.S, name)
        bits = (d.size >> 16) if d.size >= 65536 else d.size * 8
        signed = t in (ctypes.c_int8, ctypes.c_int16, ctypes.c_int32, ctypes.c_int64)
        if signed:
            if isinstance(v, int): return v - (1 << bits) if v >= (1 << (bits - 1)) else v
            return Sym(z3.If(v.t >= 2 ** (bits - 1), v.t - 2 ** bits, v.t))
        return v
    def to_bytes(s):
        n = ctypes.sizeof(s.S); acc = [0] * n      # per-byte sum terms
        for f in _flat_fields(s.S):
            name, t = f[0], f[1]; d = getattr(s.S, name); v = s.vals[name]
            if isinstance(v, SymStruct):
                for i, b in enumerate(v.to_bytes().bs): acc[d.offset + i] = b
            elif isinstance(v, list):
                for i, b in enumerate(v): acc[d.offset + i] = trunc(b, 8)
            elif d.size >= 65536:                   # bit field inside one byte (all are uint8 here)
                shift = d.size & 0xffff
                acc[d.offset] = add(acc[d.offset], mul(v, 1 << shift))
            else:
                for i in range(d.size): acc[d.offset + i] = byte_of(v, i)
        return SymBytes(acc)
    @classmethod
    def from_bytes(cls, S, sb):
        s = cls(S); bs = sb.bs
        assert len(bs) >= ctypes.sizeof(S)
        for f in _flat_fields(S):
            name, t = f[0], f[1]; d = getattr(S, name)
            if issubclass(t, ctypes.Structure):
                s.vals[name] = cls.from_bytes(t, SymBytes(bs[d.offset:d.offset + d.size]))
            elif issubclass(t, ctypes.Array):
                s.vals[name] = bs[d.offset:d.offset + d.size]
            elif d.size >= 65536:
                bits, shift = d.size >> 16, d.size & 0xffff
                s.vals[name] = trunc(div(bs[d.offset], 1 << shift), bits)
            else:
                v = 0
                for i in range(d.size): v = add(v, mul(bs[d.offset + i], 256 ** i))
                s.vals[name] = v
        return s

def add(a, b):
    if isinstance(a, int) and isinstance(b, int): return a + b
    return Sym(lift(a) + lift(b))
def mul(a, k):
    if isinstance(a, int): return a * k
    return Sym(a.t * k)
def div(a, k):
    if isinstance(a, int): return a // k
    return Sym(a.t / k)
def trunc(v, bits):
    if isinstance(v, enum.Enum): raise TypeError
    if isinstance(v, int): return v % (1 << bits)
    return Sym(v.t % (1 << bits))
def byte_of(v, i):
    if isinstance(v, int): return (v >> (8 * i)) & 255
    return Sym((v.t / (256 ** i)) % 256)

class Ret(Exception):
    def __init__(s, v): s.v = v
class PyExc(Exception):
    def __init__(s, e): s.e = e

class Interp:
    def __init__(s):
        s.pc = []            # path condition (z3 bools)
        s.decisions = []; s.pos = 0; s.pending = []
        s.interpreted = set(); s.assume = []
    # ---- forking by replay
    def decide(s, cond):
        c = z3.simplify(cond)
        if z3.is_true(c): return True
        if z3.is_false(c): return False
        sv = z3.Solver(); sv.add(*s.assume); sv.add(*s.pc)
        sv.push(); sv.add(z3.Not(cond)); r1 = sv.check(); sv.pop()
        if r1 == z3.unsat: return True
        sv.push(); sv.add(cond); r2 = sv.check(); sv.pop()
        if r2 == z3.unsat: return False
        if s.pos < len(s.decisions):
            d = s.decisions[s.pos]
        else:
            d = True; s.decisions.append(True)
        s.pos += 1
        s.pc.append(cond if d else z3.Not(cond))
        return d
    # ---- function call
    def call(s, fn, args, kwargs):
        if isinstance(fn, types.MethodType):
            return s.call(fn.__func__, [fn.__self__] + list(args), kwargs)
        if isinstance(fn, type) and issubclass(fn, ctypes.Structure):
            names = [f[0] for f in _flat_fields(fn)]
            vals = dict(zip(names, args)); vals.update(kwargs)
            return SymStruct(fn, vals)
        if fn is bytes and len(args) == 1:
            a = args[0]
            if isinstance(a, SymStruct): return a.to_bytes()
            if isinstance(a, SymBytes): return a
        if fn is isinstance:
            o, c = args
            if isinstance(o, Sym): return c is int or (isinstance(c, tuple) and int in c)
            return isinstance(o, c)
        if isinstance(fn, types.FunctionType) and fn.__module__.startswith("netqasm"):
            return s.run_function(fn, args, kwargs)
        if isinstance(fn, type) and issubclass(fn, enum.Enum) and len(args) == 1 and isinstance(args[0], Sym):
            for m in fn:
                if s.decide(args[0].t == m.value): return m
            raise PyExc(ValueError("not a valid enum value"))
        # native (constructors of dataclasses, enums, builtins)
        return fn(*args, **kwargs)
    def run_function(s, fn, args, kwargs):
        s.interpreted.add(fn.__qualname__)
        src = textwrap.dedent(inspect.getsource(fn)); node = ast.parse(src).body[0]
        sig = inspect.signature(fn); ba = sig.bind(*args, **kwargs); ba.apply_defaults()
        env = dict(ba.arguments); env['__globals__'] = fn.__globals__
        try:
            s.exec_block(node.body, env)
        except Ret as r:
            return r.v
        return None
    def exec_block(s, stmts, env):
        for st in stmts: s.exec(st, env)
    def exec(s, st, env):
        if isinstance(st, ast.Return): raise Ret(s.ev(st.value, env) if st.value else None)
        if isinstance(st, ast.Expr): s.ev(st.value, env); return
        if isinstance(st, ast.Assign):
            v = s.ev(st.value, env)
            for t in st.targets: s.assign(t, v, env)
            return
        if isinstance(st, ast.AnnAssign):
            if st.value is not None: s.assign(st.target, s.ev(st.value, env), env)
            return
        if isinstance(st, ast.Assert):
            if not s.truth(s.ev(st.test, env)): raise PyExc(AssertionError())
            return
        if isinstance(st, ast.If):
            s.exec_block(st.body if s.truth(s.ev(st.test, env)) else st.orelse, env); return
        if isinstance(st, ast.Raise):
            raise PyExc(s.ev(st.exc, env))
        if isinstance(st, ast.Pass): return
        raise NotImplementedError(ast.dump(st)[:80])
    def assign(s, t, v, env):
        if isinstance(t, ast.Name): env[t.id] = v
        elif isinstance(t, ast.Tuple):
            for tt, vv in zip(t.elts, v): s.assign(tt, vv, env)
        elif isinstance(t, ast.Attribute):
            o = s.ev(t.value, env)
            if isinstance(o, SymStruct): o.store(t.attr, v)
            else: setattr(o, t.attr, v)
        else: raise NotImplementedError
    def truth(s, v):
        if isinstance(v, SymBool): return s.decide(v.t)
        if isinstance(v, Sym): return s.decide(v.t != 0)
        return bool(v)
    def getattr(s, o, name):
        if isinstance(o, SymStruct):
            fields = [f[0] for f in _flat_fields(o.S)]
            if name in fields: return o.load(name)      # ctypes field descriptor wins over class-body attrs
            return getattr(o.S, name)
        if isinstance(o, type) and issubclass(o, ctypes.Structure) and name == "from_buffer_copy":
            return lambda raw: SymStruct.from_bytes(o, raw)
        if isinstance(o, Sym): raise AttributeError(name)
        cls = o if isinstance(o, type) else type(o)
        for k in cls.__mro__:
            if name in k.__dict__:
                a = k.__dict__[name]
                if isinstance(a, property) and not isinstance(o, type):
                    return s.run_function(a.fget, [o], {})
                if isinstance(a, types.FunctionType) and not isinstance(o, type):
                    return types.MethodType(a, o)
                if isinstance(a, classmethod):
                    return types.MethodType(a.__func__, o if isinstance(o, type) else type(o))
                break
        return getattr(o, name)
    def ev(s, e, env):
        if isinstance(e, ast.Constant): return e.value
        if isinstance(e, ast.Name):
            if e.id in env: return env[e.id]
            g = env['__globals__']
            if e.id in g: return g[e.id]
            import builtins; return getattr(builtins, e.id)
        if isinstance(e, ast.Attribute): return s.getattr(s.ev(e.value, env), e.attr)
        if isinstance(e, ast.Call):
            fn = s.ev(e.func, env); args = [s.ev(a, env) for a in e.args]
            kw = {k.arg: s.ev(k.value, env) for k in e.keywords}
            return s.call(fn, args, kw)
        if isinstance(e, ast.Compare) and len(e.ops) == 1:
            a, b = s.ev(e.left, env), s.ev(e.comparators[0], env); op = e.ops[0]
            if isinstance(a, Sym) or isinstance(b, Sym):
                A, B = lift(a), lift(b)
                return SymBool({ast.Eq: A == B, ast.NotEq: A != B, ast.Lt: A < B, ast.LtE: A <= B,
                                ast.Gt: A > B, ast.GtE: A >= B}[type(op)])
            import operator as o
            return {ast.Eq: o.eq, ast.NotEq: o.ne, ast.Lt: o.lt, ast.LtE: o.le, ast.Gt: o.gt,
                    ast.GtE: o.ge, ast.Is: o.is_, ast.IsNot: o.is_not}[type(op)](a, b)
        if isinstance(e, ast.BoolOp):
            vals = None
            for v in e.values:
                r = s.truth(s.ev(v, env))
                if isinstance(e.op, ast.Or) and r: return True
                if isinstance(e.op, ast.And) and not r: return False
            return isinstance(e.op, ast.And)
        if isinstance(e, ast.UnaryOp) and isinstance(e.op, ast.Not): return not s.truth(s.ev(e.operand, env))
        if isinstance(e, ast.IfExp):
            return s.ev(e.body if s.truth(s.ev(e.test, env)) else e.orelse, env)
        if isinstance(e, ast.Subscript):
            o = s.ev(e.value, env)
            if isinstance(e.slice, ast.Slice):
                lo = s.ev(e.slice.lower, env) if e.slice.lower else None
                hi = s.ev(e.slice.upper, env) if e.slice.upper else None
                if isinstance(o, SymBytes): return SymBytes(o.bs[lo:hi])
                return o[lo:hi]
            i = s.ev(e.slice, env)
            if isinstance(o, SymBytes): return o.bs[i]
            return o[i]
        if isinstance(e, ast.Tuple): return tuple(s.ev(x, env) for x in e.elts)
        if isinstance(e, ast.List): return [s.ev(x, env) for x in e.elts]
        if isinstance(e, ast.JoinedStr): return "<fstring>"
        raise NotImplementedError(ast.dump(e)[:100])

def explore(f, assume=()):
    """run f(interp) over all decision sequences; yields (interp, outcome)"""
    stack = [[]]
    while stack:
        dec = stack.pop()
        it = Interp(); it.decisions = list(dec); it.assume = list(assume)
        try: out = ('ret', f(it))
        except PyExc as x: out = ('exc', x.e)
        # schedule alternatives for newly made decisions
        for i in range(len(dec), len(it.decisions)):
            stack.append(it.decisions[:i] + [False])
        yield it, out

def sym_eq(a, b):
    """z3 formula: a == b structurally (dataclasses / enums / ints / Sym)"""
    if isinstance(a, Sym) or isinstance(b, Sym): return lift(a) == lift(b)
    if dataclasses.is_dataclass(a) and dataclasses.is_dataclass(b):
        if type(a) is not type(b): return z3.BoolVal(False)
        return z3.And([sym_eq(getattr(a, f.name), getattr(b, f.name)) for f in dataclasses.fields(a) if f.name != 'lineno'] or [z3.BoolVal(True)])
    return z3.BoolVal(a == b)

if __name__ == "__main__":
    from netqasm.lang.instr import core, vanilla, nv, base
    from netqasm.lang.instr.flavour import CORE_INSTRUCTIONS, VanillaFlavour, NVFlavour
    from netqasm.lang.operand import Register, Immediate, Address, ArrayEntry, ArraySlice
    from netqasm.lang.encoding import RegisterName
    from netqasm.lang import encoding
    t0 = time.time(); n_obl = 0; bad = []
    classes = []
    for c in CORE_INSTRUCTIONS + VanillaFlavour().instrs + NVFlavour().instrs:
        if c not in classes: classes.append(c)
    for cls in classes:
        cons = []; ctr = [0]
        def fresh(lo, hi):
            ctr[0] += 1; v = z3.Int(f"v{ctr[0]}"); cons.append(z3.And(v >= lo, v <= hi)); return Sym(v)
        banks = list(RegisterName)
        def mkreg(): return Register(banks[ctr[0] % 4], fresh(0, 15))
        kw = {}
        for f in dataclasses.fields(cls):
            if f.name in ('id', 'mnemonic', 'lineno'): continue
            t = f.type
            if t is Register: kw[f.name] = mkreg()
            elif t is Immediate:
                wide = cls.__mro__[[k.__name__ for k in cls.__mro__].index(next(k.__name__ for k in cls.__mro__ if k.__module__.endswith('base')))]
                # width from the ctypes command actually used: decided by range: try int32 for shapes with INTEGER imm
                is32 = any(b.__name__ in ('ImmInstruction', 'RegImmInstruction', 'RegRegImmInstruction') for b in cls.__mro__)
                kw[f.name] = Immediate(fresh(-2**31, 2**31 - 1) if is32 else fresh(0, 255))
            elif t is Address: kw[f.name] = Address(fresh(-2**31, 2**31 - 1))
            elif t is ArrayEntry: kw[f.name] = ArrayEntry(Address(fresh(-2**31, 2**31 - 1)), mkreg())
            elif t is ArraySlice: kw[f.name] = ArraySlice(Address(fresh(-2**31, 2**31 - 1)), mkreg(), mkreg())
        x = cls(**kw)
        def body(it):
            raw = it.call(it.getattr(x, 'serialize'), [], {})
            assert isinstance(raw, SymBytes) and len(raw) == 7, (cls, raw)
            y = it.call(it.getattr(cls, 'deserialize_from'), [raw], {})
            return raw, y
        for it, (kind, out) in explore(body, cons):
            n_obl += 1
            s = z3.Solver(); s.add(*cons); s.add(*it.pc)
            if kind == 'exc':
                if s.check() == z3.sat: bad.append((cls.__name__, 'raises', repr(out), s.model()))
                continue
            raw, y = out
            s.add(z3.Not(z3.And(sym_eq(x, y), lift(raw.bs[0]) == cls.id)))
            r = s.check()
            if r != z3.unsat: bad.append((cls.__name__, r, s.model() if r == z3.sat else None))
    print("classes", len(classes), "obligations", n_obl, "failed", len(bad), "wall", round(time.time() - t0, 2))
    for b in bad[:5]: print(b)
    # C15 probe: OptionalInt(None).value through the same interpreter
    it = Interp()
    o = it.call(encoding.OptionalInt, [], {})      # zero-initialised struct
    it.run_function(encoding.OptionalInt.__init__, [o, None], {})
    print("OptionalInt(None).value ->", it.getattr(o, 'value'), "(spec: None)")
