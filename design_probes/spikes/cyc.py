"""throw-away: exact arithmetic in Z[zeta64][1/2]; element = (coeff list len 32 ints, e) meaning sum c_k z^k / 2^e, z^32=-1"""
import time
N=32
class C:
    __slots__=('c','e')
    def __init__(s,c,e=0): s.c=list(c); s.e=e
    @staticmethod
    def z(k, e=0):
        k%=64; c=[0]*N
        if k<32: c[k]=1
        else: c[k-32]=-1
        return C(c,e)
    def __add__(a,b):
        e=max(a.e,b.e); return C([x*2**(e-a.e)+y*2**(e-b.e) for x,y in zip(a.c,b.c)],e)
    def __neg__(a): return C([-x for x in a.c],a.e)
    def __sub__(a,b): return a+(-b)
    def __mul__(a,b):
        r=[0]*N
        for i,x in enumerate(a.c):
            if x==0: continue
            for j,y in enumerate(b.c):
                if y==0: continue
                k=i+j
                if k<N: r[k]+=x*y
                else: r[k-N]-=x*y
        return C(r,a.e+b.e)
    def iszero(a): return all(x==0 for x in a.c)
ZERO=C([0]*N); ONE=C.z(0); I=C.z(16)
def cos(k): return C.z(k,1)+C.z(-k,1)          # cos(k*pi/32)
def sin(k): return (C.z(k,1)-C.z(-k,1))*(-I)   # (z^k - z^-k)/(2i)
def mm(A,B): 
    n=len(A); return [[sum((A[i][k]*B[k][j] for k in range(n)),ZERO) for j in range(n)] for i in range(n)]
def kron(A,B):
    return [[A[i][j]*B[k][l] for j in range(len(A)) for l in range(len(B))] for i in range(len(A)) for k in range(len(B))]
def eye(n): return [[ONE if i==j else ZERO for j in range(n)] for i in range(n)]
def rot(axis,n16):   # rotation by n16*pi/16 -> half angle n16*pi/32
    c,s=cos(n16),sin(n16); mi=-I
    if axis=='x': return [[c, mi*s],[mi*s, c]]
    if axis=='y': return [[c, -s],[s, c]]
    if axis=='z': return [[c-I*s, ZERO],[ZERO, c+I*s]]
def eq_phase(A,B):
    n=len(A)
    for i in range(n):
        for j in range(n):
            for k in range(n):
                for l in range(n):
                    if not (A[i][j]*B[k][l]-A[k][l]*B[i][j]).iszero(): return False
    return True
S=[[ONE,ZERO],[ZERO,I]]; Sd=[[ONE,ZERO],[ZERO,-I]]
t0=time.time()
U=mm(rot('x',8),mm(rot('y',24),rot('x',24)))   # emitted order: Rx(24),Ry(24),Rx(8) applied left-to-right
print("S table == S ?",eq_phase(U,S)," == S^dagger ?",eq_phase(U,Sd))
U2=mm(rot('x',8),mm(rot('y',8),rot('x',24)))
print("with Ry(8): == S ?",eq_phase(U2,S))
H=mm(rot('x',16),rot('y',8)); 
sq=C.z(8)-C.z(24)   # sqrt2
Hs=[[ONE,ONE],[ONE,-ONE]]
print("H ok?",eq_phase(H,Hs), "sqrt2^2==2?", (sq*sq-C([2]+[0]*31)).iszero())
# cnot electron(0)->carbon(1): crot_x(8): |0><0| x Rx(+) + |1><1| x Rx(-) ; then Rz(24) on electron; Rx(24) on carbon
P0=[[ONE,ZERO],[ZERO,ZERO]];P1=[[ZERO,ZERO],[ZERO,ONE]]
def madd(A,B): return [[a+b for a,b in zip(r,q)] for r,q in zip(A,B)]
crx=madd(kron(P0,rot('x',8)),kron(P1,rot('x',-8)))
U=mm(kron(eye(2),rot('x',24)),mm(kron(rot('z',24),eye(2)),crx))
CNOT=[[ONE,ZERO,ZERO,ZERO],[ZERO,ONE,ZERO,ZERO],[ZERO,ZERO,ZERO,ONE],[ZERO,ZERO,ONE,ZERO]]
print("cnot e->c ok?",eq_phase(U,CNOT), round(time.time()-t0,2),"s")
