import numpy as np
from netqasm.sdk.toolbox.state_prep import get_angle_spec_from_float as g
def err(angle,tol):
    nds=g(angle,tol)
    s=sum(n*np.pi/2**d for n,d in nds)
    a=angle%(2*np.pi)
    e=abs(s-a); e=min(e,abs(e-2*np.pi))
    return nds,e
for a,t in [(-1e-20,1e-4),(2*np.pi,1e-4),(1.0,1e-9),(0.00031,1e-4),(np.pi*(0.5+0.9e-4),1e-4), (np.pi/3,1e-4), (np.pi,1e-4),(1e-5,1e-4)]:
    try:
        nds,e=err(a,t); print(a,t,nds,e, "VIOL" if e>t or any(d<0 or d>255 or n>255 or n<0 for n,d in nds) else "")
    except Exception as ex: print(a,t,"EXC",repr(ex))
