import numpy as np
from netqasm.lang.instr import vanilla, nv, core
from netqasm.lang.operand import Register, Immediate
from netqasm.lang.encoding import RegisterName
from netqasm.lang.subroutine import Subroutine
from netqasm.sdk.transpile import NVSubroutineTranspiler
from netqasm.util.quantum_gates import are_matrices_equal
Q=lambda i: Register(RegisterName.Q,i)
def unitary(instrs, nq, regvals):
    U=np.eye(2**nq,dtype=complex)
    def embed1(m,q):
        ops=[np.eye(2)]*nq; ops[q]=m
        r=np.array([[1]])
        for o in ops: r=np.kron(r,o)
        return r
    def embed_ctrl(target_only_pos_neg, c, t):
        # controlled rot in nv: ctrl 0 -> R(angle), ctrl 1 -> R(-angle)
        pos,neg=target_only_pos_neg
        P0=np.array([[1,0],[0,0]]);P1=np.array([[0,0],[0,1]])
        def k(ops):
            r=np.array([[1]])
            for o in ops: r=np.kron(r,o)
            return r
        o0=[np.eye(2)]*nq; o0[c]=P0; o0[t]=pos
        o1=[np.eye(2)]*nq; o1[c]=P1; o1[t]=neg
        return k(o0)+k(o1)
    for ins in instrs:
        if isinstance(ins, core.SetInstruction):
            regvals[ins.reg]=ins.imm.value; continue
        if isinstance(ins,(core.RotationInstruction,core.SingleQubitInstruction)):
            U=embed1(ins.to_matrix(), regvals[ins.reg])@U
        elif isinstance(ins, core.ControlledRotationInstruction):
            from netqasm.util.quantum_gates import get_rotation_matrix
            axis={'crot_x':[1,0,0],'crot_y':[0,1,0]}[ins.mnemonic]
            ang=ins.angle_num.value*np.pi/2**ins.angle_denom.value
            U=embed_ctrl((get_rotation_matrix(axis,ang),get_rotation_matrix(axis,-ang)),regvals[ins.reg0],regvals[ins.reg1])@U
        elif isinstance(ins, core.TwoQubitInstruction):
            raise Exception("vanilla 2q left")
    return U
for cls in [vanilla.GateXInstruction,vanilla.GateYInstruction,vanilla.GateZInstruction,vanilla.GateHInstruction,vanilla.GateKInstruction,vanilla.GateSInstruction,vanilla.GateTInstruction]:
    sub=Subroutine(instructions=[core.SetInstruction(reg=Q(0),imm=Immediate(0)),cls(reg=Q(0))],app_id=0)
    out=NVSubroutineTranspiler(sub).transpile().instructions
    U=unitary(out,1,{})
    print(cls.__name__, are_matrices_equal(U, cls().to_matrix()), are_matrices_equal(U, cls().to_matrix().conj().T))
def embed2(m, a, b, nq):
    # m acts on (a,b) ordering a=first
    dim=2**nq; U=np.zeros((dim,dim),dtype=complex)
    for i in range(dim):
        bits=[(i>>(nq-1-k))&1 for k in range(nq)]
        col=bits[a]*2+bits[b]
        for row in range(4):
            nb=bits[:]; nb[a]=row>>1; nb[b]=row&1
            j=sum(x<<(nq-1-k) for k,x in enumerate(nb))
            U[j,i]+=m[row,col]
    return U
for cls in [vanilla.CnotInstruction, vanilla.CphaseInstruction]:
    for (a,b) in [(0,1),(1,0),(1,2),(2,1)]:
        sub=Subroutine(instructions=[core.SetInstruction(reg=Q(0),imm=Immediate(a)),core.SetInstruction(reg=Q(1),imm=Immediate(b)),cls(reg0=Q(0),reg1=Q(1))],app_id=0)
        out=NVSubroutineTranspiler(sub).transpile().instructions
        U=unitary(out,3,{})
        print(cls.__name__,a,b, are_matrices_equal(U, embed2(cls().to_matrix(),a,b,3)))
print(nv.ControlledRotYInstruction(reg0=Q(0),reg1=Q(1),imm0=Immediate(8),imm1=Immediate(4)).to_matrix().round(3))
