from exp8 import *
SharedMemoryManager.reset_memories()
ex=Ex(name="m"); ex.network_stack=Stack(); ex.init_new_application(0,2)
src="""
# NETQASM 1.0
# APPID 0
array 10 @0
array 1 @1
store 5 @1[0]
recv_epr(1,0) 1 0
wait_all @0[0:10]
"""
sub=parse_text_subroutine(src)
class Ex2(Ex):
    def _do_wait(self):
        yield "wait"
ex=Ex2(name="m2"); ex.network_stack=Stack(); ex.init_new_application(0,2)
g=ex.execute_subroutine(sub)
print(next(g))
r0=LinkLayerOKTypeK(type=ReturnType.OK_K,create_id=7,logical_qubit_id=5,directionality_flag=1,sequence_number=0,purpose_id=0,remote_node_id=1,goodness=9,goodness_time=3,bell_state=BellState.PSI_PLUS)
try: ex._handle_epr_response(r0)
except Exception as e: print("EXC",type(e).__name__,str(e)[:90])
print(ex._qubit_unit_modules, ex._used_physical_qubit_addresses, len(ex._pending_epr_responses), ex._epr_recv_requests[(1,0)][0].pairs_left)
# negative virtual address
ex=Ex2(name="m3"); ex.network_stack=Stack(); ex.init_new_application(0,2)
s2=parse_text_subroutine("# NETQASM 1.0\n# APPID 0\nset Q0 -1\nqalloc Q0\nset Q1 1\nqalloc Q1\n")
try: list(ex.execute_subroutine(s2))
except Exception as e: print("EXC",type(e).__name__,str(e)[:90])
print(ex._qubit_unit_modules, ex._used_physical_qubit_addresses)
