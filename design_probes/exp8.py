import sys
from netqasm.backend.executor import Executor
from netqasm.backend.network_stack import BaseNetworkStack
from netqasm.qlink_compat import *
from netqasm.lang.parsing.text import parse_text_subroutine
from netqasm.sdk.shared_memory import SharedMemoryManager
class Stack(BaseNetworkStack):
    def __init__(s): s.reqs=[]
    def put(s,request): s.reqs.append(request)
    def setup_epr_socket(s,*a,**k): return None
    def get_purpose_id(s,remote_node_id,epr_socket_id): return epr_socket_id
class Ex(Executor):
    node_id=0
    def _wait_to_handle_epr_responses(self): return
SharedMemoryManager.reset_memories()
ex=Ex(name="n"); ex.network_stack=Stack(); ex.init_new_application(0,3)
# recv 2 pairs, keep, qubits 0,1
src="""
# NETQASM 1.0
# APPID 0
array 20 @0
array 2 @1
store 0 @1[0]
store 1 @1[1]
recv_epr(1,0) 1 0
"""
sub=parse_text_subroutine(src)
# response before request
r0=LinkLayerOKTypeK(type=ReturnType.OK_K,create_id=7,logical_qubit_id=5,directionality_flag=1,sequence_number=0,purpose_id=0,remote_node_id=1,goodness=9,goodness_time=3,bell_state=BellState.PSI_PLUS)
ex._handle_epr_response(r0)
print("pending",len(ex._pending_epr_responses))
g=ex.execute_subroutine(sub)
try:
    list(g)
except Exception as e: print("EXC",type(e).__name__, str(e)[:100])
print("after sub: pending",len(ex._pending_epr_responses), ex._qubit_unit_modules, ex._used_physical_qubit_addresses)
try:
    ex._handle_epr_response(r0._replace(logical_qubit_id=6,sequence_number=1))
except Exception as e: print("EXC",type(e).__name__, str(e)[:100])
print("pending",len(ex._pending_epr_responses), ex._qubit_unit_modules, ex._used_physical_qubit_addresses, ex._epr_recv_requests)
