import traceback
from netqasm.sdk.connection import DebugConnection
from netqasm.sdk.qubit import Qubit
from netqasm.sdk.shared_memory import SharedMemoryManager
from netqasm.backend.messages import deserialize_host_msg, SubroutineMessage, InitNewAppMessage, StopAppMessage
from netqasm.backend.executor import Executor
from netqasm.lang.parsing import deserialize
from netqasm.sdk.transpile import NVSubroutineTranspiler
from netqasm.sdk.build_types import NVHardwareConfig, GenericHardwareConfig
from netqasm.lang.instr.flavour import NVFlavour

class Conn(DebugConnection):
    """runs each committed message on a base Executor"""
    def __init__(self,*a,flav=None,**k):
        self.ex=Executor(name="Alice"); self.flav=flav
        super().__init__(*a,**k)
    @property
    def shared_memory(self):
        return self.ex._shared_memories[self.app_id]
    def _commit_serialized_message(self, raw_msg, block=True, callback=None):
        raw=raw_msg
        m=deserialize_host_msg(raw)
        if isinstance(m,InitNewAppMessage):
            self.ex.init_new_application(m.app_id,m.max_qubits)
        elif isinstance(m,SubroutineMessage):
            s=deserialize(m.subroutine,flavour=self.flav)
            list(self.ex.execute_subroutine(s))
        elif isinstance(m,StopAppMessage):
            list(self.ex.stop_application(m.app_id))
DebugConnection.node_ids={"Alice":0,"Bob":1}
def run(name,f):
    SharedMemoryManager.reset_memories()
    try:
        f(); print(name,"OK")
    except Exception as e:
        print(name,"FAIL",type(e).__name__,str(e).split("\n")[0][:150])
def c09a():
    with Conn("Alice",max_qubits=2) as c:
        for i in range(3):
            q=Qubit(c); q.free(); c.flush()
run("C09 alloc/free x3 budget2",c09a)
def c09b():
    with Conn("Alice",max_qubits=2,hardware_config=NVHardwareConfig(2)) as c:
        q0=Qubit(c); c.flush(); q1=Qubit(c); q1.measure(); c.flush()
        print([q.qubit_id for q in c.active_qubits], c.ex._qubit_unit_modules)
run("C09 NV reloc",c09b)
def c06():
    with Conn("Alice") as c:
        q=Qubit(c); 
        from netqasm.lang.operand import Template
        q.rot_X(n=Template("n"),d=1)
        m=q.measure()
        sub=c.compile()
        sub.instantiate(c.app_id,{"n":1})
        c.commit_subroutine(sub)
        print("m after commit", m.value if hasattr(m,'value') else m)
    print("after close", c.ex._shared_memories if False else None)
run("C06 precompile",c06)
def c13():
    with Conn("Alice") as c:
        q=Qubit(c); q.measure()
    ex=c.ex
    ex.init_new_application(0,2)
run("C13 re-register",c13)
