import dataclasses, itertools
from netqasm.lang.instr.flavour import VanillaFlavour, NVFlavour, REIDSFlavour, CORE_INSTRUCTIONS
from netqasm.lang.instr import base, core
from netqasm.lang.operand import Register, Address, ArrayEntry, ArraySlice, Immediate
from netqasm.lang.encoding import RegisterName
from netqasm.lang.parsing.text import parse_text_subroutine
from netqasm.lang.parsing import deserialize
from netqasm.lang.subroutine import Subroutine
import typing
def mk(cls, ints, regs):
    kw={}
    hints={f.name:f.type for f in dataclasses.fields(cls)}
    for f in dataclasses.fields(cls):
        if f.name in('id','mnemonic','lineno','text'): continue
        t=f.type
        if t is Register or t=='Register': kw[f.name]=next(regs)
        elif t is Immediate: kw[f.name]=Immediate(next(ints))
        elif t is Address: kw[f.name]=Address(next(ints))
        elif t is ArrayEntry: kw[f.name]=ArrayEntry(Address(next(ints)), next(regs))
        elif t is ArraySlice: kw[f.name]=ArraySlice(Address(next(ints)), next(regs), next(regs))
        else: raise Exception((cls,f.name,t))
    return cls(**kw)
bad17=[];bad01=[]
for F in (VanillaFlavour,NVFlavour,REIDSFlavour):
    fl=F()
    for cls in CORE_INSTRUCTIONS+fl.instrs:
        for vals in ([0,1,2,3,4,5],[255,254,253,252,251,250],[-1,-2,-3,-4,-5,-6],[2**31-1]*6,[-2**31]*6):
            regs=itertools.cycle([Register(RegisterName.R,0),Register(RegisterName.C,15),Register(RegisterName.Q,7),Register(RegisterName.M,3)])
            ins=mk(cls, iter(vals), regs)
            try:
                p=parse_text_subroutine(str(ins), flavour=fl).instructions
                if p!=[ins]: bad17.append((F.__name__,str(ins),[str(x) for x in p]))
            except Exception as e:
                bad17.append((F.__name__,str(ins),repr(e)[:80]))
print(len(bad17)); 
for b in bad17[:15]: print(b)
