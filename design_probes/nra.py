from z3 import *
import time
rest,p,tol=Reals('rest p tol'); n=Int('n')
pre=And(tol>0, rest>tol, rest<2, p>0, p*rest<=255, 2*p*rest>255, ToReal(n)<=rest*p, rest*p<ToReal(n)+1)
rest2=rest-ToReal(n)/p
goals={'n_lo':n>=127,'n_hi':n<=255,'rest2_nonneg':rest2>=0,'rest2_small':rest2*p<1,'contract':rest2*255<2*rest}
for k,g in goals.items():
    s=Solver(); s.set('timeout',20000); s.add(pre, Not(g)); t=time.time(); r=s.check(); print(k,r,round(time.time()-t,3))
