import numpy as np, itertools
from netqasm.sdk.toolbox.gates import toffoli_gate, t_inverse
from netqasm.util.quantum_gates import X,Y,Z,H,K,S,T,CNOT, are_matrices_equal
class Q:
    def __init__(s,log,i): s.log=log; s.i=i
    def _g(s,m): s.log.append((m,s.i))
    def H(s): s._g(H)
    def T(s): s._g(T)
    def K(s): s._g(K)
    def cnot(s,t): s.log.append(('cnot',s.i,t.i))
def U(log,n):
    M=np.eye(2**n,dtype=complex)
    for g in log:
        if g[0] is not None and not isinstance(g[0],str):
            ops=[np.eye(2)]*n; ops[g[1]]=g[0]
            m=np.array([[1]]); 
            for o in ops: m=np.kron(m,o)
        else:
            c,t=g[1],g[2]; m=np.zeros((2**n,2**n))
            for b in range(2**n):
                bits=[(b>>(n-1-k))&1 for k in range(n)]
                if bits[c]: bits[t]^=1
                m[sum(x<<(n-1-k) for k,x in enumerate(bits)),b]=1
        M=m@M
    return M
log=[]; a,b,c=Q(log,0),Q(log,1),Q(log,2); toffoli_gate(a,b,c)
tof=np.eye(8); tof[[6,7]]=tof[[7,6]]
print("toffoli", are_matrices_equal(U(log,3),tof))
log=[]; t_inverse(Q(log,0)); print("tinv", np.allclose(U(log,1), T.conj().T))
# K: check K Z K^dagger
print("KZK=Y?", np.allclose(K@Z@K.conj().T, Y), "K hermitian", np.allclose(K,K.conj().T))
