import numpy as np, traceback
from netqasm.sdk.connection import DebugConnection
from netqasm.sdk.qubit import Qubit
from netqasm.sdk.constraint import ValueAtMostConstraint
from netqasm.sdk.shared_memory import SharedMemoryManager
from netqasm.backend.messages import deserialize_host_msg
from netqasm.lang.parsing import deserialize
from netqasm.lang.instr.flavour import NVFlavour, VanillaFlavour
from netqasm.sdk.transpile import NVSubroutineTranspiler
from netqasm.sdk.build_types import NVHardwareConfig, GenericHardwareConfig

def subs(conn, flav=None):
    out=[]
    for raw in conn.storage:
        m=deserialize_host_msg(raw)
        if hasattr(m,'subroutine'):
            out.append(deserialize(m.subroutine, flavour=flav))
    return out

DebugConnection.node_ids={"Alice":0,"Bob":1}
# C14: leak
with DebugConnection("Alice") as c:
    arr=c.new_array(1,[0])
    f=arr.get_future_index(0)
    try:
        for i in range(20):
            with f.if_ez():
                q=Qubit(c); q.measure()
            c.flush()
        print("C14 if_ez ok")
    except Exception as e:
        print("C14 if_ez fails at",i, repr(e))
with DebugConnection("Alice") as c:
    try:
        for i in range(20):
            with c.loop_until(3) as loop:
                q=Qubit(c); m=q.measure()
                loop.set_exit_condition(ValueAtMostConstraint(m,0))
            c.flush()
        print("C14 loop_until ok")
    except Exception as e:
        print("C14 loop_until fails at",i, repr(e))
# C05 loop_until code
with DebugConnection("Alice") as c:
    with c.loop_until(3) as loop:
        q=Qubit(c); m=q.measure()
        loop.set_exit_condition(ValueAtMostConstraint(m,0))
for s in subs(c): print(s)
