import dataclasses, random, struct
from netqasm.lang.instr.flavour import VanillaFlavour, NVFlavour, CORE_INSTRUCTIONS
from netqasm.lang.operand import Register, Address, ArrayEntry, ArraySlice, Immediate
from netqasm.lang.encoding import RegisterName
from netqasm.lang.subroutine import Subroutine
def regb(r): return bytes([r.name.value | (r.index<<2)])
def enc(ins):
    b=bytes([ins.id])
    is32 = any(k.__name__ in ('ImmInstruction','RegImmInstruction','RegRegImmInstruction') for k in type(ins).__mro__)
    for op in ins.operands:
        if isinstance(op,Register): b+=regb(op)
        elif isinstance(op,Immediate): b+= struct.pack('<i',op.value) if is32 else bytes([op.value])
        elif isinstance(op,Address): b+=struct.pack('<i',op.address)
        elif isinstance(op,ArrayEntry): b+=struct.pack('<i',op.address.address)+regb(op.index)
        elif isinstance(op,ArraySlice): b+=struct.pack('<i',op.address.address)+regb(op.start)+regb(op.stop)
    return b+bytes(7-len(b))
rnd=random.Random(1); bad=0; n=0
for cls in CORE_INSTRUCTIONS+VanillaFlavour().instrs+NVFlavour().instrs:
    is32 = any(k.__name__ in ('ImmInstruction','RegImmInstruction','RegRegImmInstruction') for k in cls.__mro__)
    for _ in range(200):
        R=lambda: Register(rnd.choice(list(RegisterName)), rnd.randrange(16))
        I32=lambda: rnd.choice([0,1,-1,2**31-1,-2**31,rnd.randrange(-2**31,2**31)])
        kw={}
        for f in dataclasses.fields(cls):
            if f.name in('id','mnemonic','lineno'): continue
            t=f.type
            kw[f.name]= R() if t is Register else Immediate(I32() if is32 else rnd.randrange(256)) if t is Immediate else Address(I32()) if t is Address else ArrayEntry(Address(I32()),R()) if t is ArrayEntry else ArraySlice(Address(I32()),R(),R())
        ins=cls(**kw); n+=1
        if ins.serialize()!=enc(ins): bad+=1; print(cls.__name__, ins.serialize().hex(), enc(ins).hex())
print(n,bad, bytes(Subroutine(instructions=[],app_id=0x1234,netqasm_version=(3,7))).hex())
