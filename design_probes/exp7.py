import traceback
from netqasm.sdk.connection import DebugConnection
from netqasm.sdk.qubit import Qubit
from netqasm.lang.operand import Register
from netqasm.lang.encoding import RegisterName
DebugConnection.node_ids={"Alice":0,"Bob":1}
def t(name,f):
    try: f(); print(name,"ok")
    except Exception as e: print(name,"FAIL",type(e).__name__,e)
def a():
    with DebugConnection("Alice") as c:
        with c.loop(3, loop_register=Register(RegisterName.R,5)) as i:
            q=Qubit(c); q.measure()
t("loop explicit reg",a)
def b():
    with DebugConnection("Alice") as c:
        def body(conn,i):
            q=Qubit(conn); q.measure()
        for k in range(20):
            c.loop_body(body,3); 
            arr=c.new_array(2,[1,1]); f=arr.get_future_index(0); f.add(1); f.add(arr.get_future_index(1),mod=2)
            with arr.foreach() as v:
                with v.if_eq(1):
                    q=Qubit(c); q.measure()
            c.flush()
        print(c.builder._mem_mgr._active_registers)
t("many ops",b)
