import sys
sys.path.insert(0,'/repo')
import deal
from netqasm.util.string import is_number, group_by_word

@deal.post(lambda r: r is True)
def int_roundtrip(n: int) -> bool:
    s = str(n)
    return is_number(s) and int(s) == n

@deal.pre(lambda a, b: ' ' not in a and ' ' not in b and len(a)>0 and len(b)>0 and '(' not in a and '(' not in b)
@deal.post(lambda r: r is True)
def gbw(a: str, b: str) -> bool:
    return group_by_word(a + " " + b, brackets="()") == [a, b]
