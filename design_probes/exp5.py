from netqasm.lang.parsing.text import parse_text_subroutine
s=parse_text_subroutine("# NETQASM 1.0\n# APPID 0\nstore 5 @0[R0]\n")
print(s)
s=parse_text_subroutine("# NETQASM 1.0\n# APPID 0\nset R0 0\nset R1 1\nadd R2 R0 7\nstore R2 @0[R3]\n")
print(s)
# labels: consecutive labels, label at end, label before literal
s=parse_text_subroutine("# NETQASM 1.0\n# APPID 0\nset R0 0\nA:\nB:\nadd R0 R0 1\nbeq R0 3 END\njmp A\njmp B\nEND:\n")
print(s)
# 17 distinct regs -> ?
from netqasm.sdk.connection import DebugConnection
from netqasm.sdk.epr_socket import EPRSocket
from netqasm.backend.messages import deserialize_host_msg
from netqasm.lang.parsing import deserialize
DebugConnection.node_ids={"Alice":0,"Bob":1}
e=EPRSocket("Bob")
with DebugConnection("Alice",epr_sockets=[e]) as c:
    qs=e.recv_keep(number=2)
for raw in c.storage:
    m=deserialize_host_msg(raw)
    if hasattr(m,'subroutine'): print(deserialize(m.subroutine))
